package clisim

import (
	"bytes"
	"encoding/json"
	"fmt"
	"os"
	"os/exec"
	"path/filepath"
	"strconv"
	"strings"
	"sync"
	"syscall"
	"time"
)

// Inject / Plan / Result mirror the JSON of overlaysrc/verifos/sim.go.
type Inject struct {
	Kind   string `json:"kind"`
	PathRe string `json:"path_re"`
	Nth    int    `json:"nth"`
	Times  int    `json:"times"`
	Errno  int    `json:"errno"`
	Short  bool   `json:"short"`
}

type Plan struct {
	Args       []string  `json:"args"`
	Dir        string    `json:"dir"`
	Stdin      string    `json:"stdin"`
	Stdout     string    `json:"stdout"`
	Stderr     string    `json:"stderr"`
	Tape       []uint64  `json:"tape"`
	Stick      int       `json:"stick"`
	CrashAt    int       `json:"crash_at"`
	TornAt     int       `json:"torn_at"`
	SoftKill   bool      `json:"soft_kill"`
	SoftKillAt int       `json:"soft_kill_at"`
	TornN      int       `json:"torn_n"`
	Inject     []*Inject `json:"inject"`
	TracePath  string    `json:"trace"`
	ResultPath string    `json:"result"`
	MaxOps     int       `json:"max_ops"`
	Chunks     []int     `json:"chunks"`
	Chroot     bool      `json:"chroot"`
}

type Result struct {
	Exit      int            `json:"exit"`
	Ops       int            `json:"ops"`
	TapeUsed  int            `json:"tape_used"`
	Deadlock  bool           `json:"deadlock"`
	Steps     int            `json:"steps"`
	Preempts  int            `json:"preempts"`
	MaxParked int            `json:"max_parked"`
	Fired     map[string]int `json:"fired"`
	SchedHash uint64         `json:"sched_hash"`
	Note      string         `json:"note"`
	NumCPU    int            `json:"num_cpu"`
}

// TraceOp is one operation of the child's trace.
type TraceOp struct {
	Seq  int
	Op   string // "kind path [-> path2]"
	Kind string
	Path string
	N    int
	Done bool
	Err  string
}

var mutating = map[string]bool{"rename": true, "opentrunc": true, "openw": true, "write": true, "remove": true, "removeall": true,
	"mkdir": true, "mkdirall": true, "symlink": true, "link": true, "chmod": true, "chown": true, "lchown": true, "chtimes": true,
	"truncate": true, "fchmod": true}

// Mutating reports whether an operation kind can change the disk.
func Mutating(kind string) bool { return mutating[kind] }

type ChildOut struct {
	Res      *Result // nil when the child died before writing it
	ExitCode int
	Killed   bool
	Trace    []TraceOp
	Stdout   []byte
	Stderr   []byte
	TestOut  string
}

// Runner runs children of one simulation binary.
type Runner struct {
	Bin   string
	Procs int // GOMAXPROCS of the child (0: 2)
}

// Run executes one simulated CLI run in work (which holds the materialised root in
// work/root).
func (r *Runner) Run(work string, iv *Inv, p *Plan) (*ChildOut, error) {
	p.Dir = filepath.Join(work, "root")
	p.Args = iv.ArgsFor(p.Dir)
	if iv.Chroot {
		// the child makes the scenario root its file-system root: "@ROOT@/src" is "/src"
		p.Chroot = true
		p.Args = iv.ArgsFor("")
	}
	p.Stdout = filepath.Join(work, "stdout")
	p.Stderr = filepath.Join(work, "stderr")
	p.TracePath = filepath.Join(work, "trace")
	p.ResultPath = filepath.Join(work, "result.json")
	if iv.Stdin != nil {
		p.Stdin = filepath.Join(work, "stdin")
		if err := os.WriteFile(p.Stdin, iv.Stdin, 0o644); err != nil {
			return nil, err
		}
	} else {
		p.Stdin = "/dev/null"
	}
	for _, f := range []string{p.Stdout, p.Stderr, p.TracePath, p.ResultPath} {
		os.Remove(f)
	}
	pb, _ := json.Marshal(p)
	pp := filepath.Join(work, "plan.json")
	if err := os.WriteFile(pp, pb, 0o644); err != nil {
		return nil, err
	}
	argv := []string{r.Bin, "-test.run", "^TestVerifSim$", "-test.count", "1", "-test.timeout", "120s"}
	if iv.CPUs > 0 {
		if list := cpuList(iv.CPUs); list != "" {
			argv = append([]string{"taskset", "-c", list}, argv...)
		}
	}
	cmd := exec.Command(argv[0], argv[1:]...)
	cmd.Dir = work
	procs := r.Procs
	if procs == 0 {
		procs = 2
	}
	cmd.Env = append(os.Environ(), "VERIF_PLAN="+pp, fmt.Sprintf("GOMAXPROCS=%d", procs), "TMPDIR="+work)
	var tout bytes.Buffer
	cmd.Stdout, cmd.Stderr = &tout, &tout
	if err := cmd.Start(); err != nil {
		return nil, err
	}
	done := make(chan error, 1)
	go func() { done <- cmd.Wait() }()
	var werr error
	select {
	case werr = <-done:
	case <-time.After(150 * time.Second):
		cmd.Process.Kill()
		<-done
		return nil, fmt.Errorf("child watchdog: no result after 150s\n%s", tout.String())
	}
	out := &ChildOut{TestOut: tout.String()}
	if werr != nil {
		if ee, ok := werr.(*exec.ExitError); ok {
			out.ExitCode = ee.ExitCode()
			if ws, ok := ee.Sys().(syscall.WaitStatus); ok && ws.Signaled() && ws.Signal() == syscall.SIGKILL {
				out.Killed = true
			}
		} else {
			return nil, werr
		}
	}
	if rb, err := os.ReadFile(p.ResultPath); err == nil {
		out.Res = &Result{}
		if err := json.Unmarshal(rb, out.Res); err != nil {
			return nil, fmt.Errorf("bad child result: %v", err)
		}
	}
	out.Stdout, _ = os.ReadFile(p.Stdout)
	out.Stderr, _ = os.ReadFile(p.Stderr)
	tb, _ := os.ReadFile(p.TracePath)
	out.Trace = parseTrace(tb)
	if out.ExitCode == 90 || strings.Contains(out.TestOut, "INFRA:") {
		return nil, fmt.Errorf("child infrastructure error: %s", out.TestOut)
	}
	return out, nil
}

var (
	cpuOnce    sync.Once
	cpuAllowed []int
)

// cpuList returns the first n CPUs this process may run on as a taskset list, "" when the
// affinity cannot be narrowed (no taskset, fewer CPUs): the child then runs unconfined.
func cpuList(n int) string {
	cpuOnce.Do(func() {
		out, err := exec.Command("taskset", "-pc", strconv.Itoa(os.Getpid())).Output()
		if err != nil {
			return
		}
		s := strings.TrimSpace(string(out))
		if i := strings.LastIndex(s, ": "); i >= 0 {
			s = s[i+2:]
		}
		for _, part := range strings.Split(s, ",") {
			lo, hi, ok := strings.Cut(part, "-")
			a, err1 := strconv.Atoi(lo)
			b := a
			var err2 error
			if ok {
				b, err2 = strconv.Atoi(hi)
			}
			if err1 != nil || err2 != nil {
				cpuAllowed = nil
				return
			}
			for c := a; c <= b; c++ {
				cpuAllowed = append(cpuAllowed, c)
			}
		}
	})
	if n >= len(cpuAllowed) {
		return ""
	}
	var sb strings.Builder
	for i := 0; i < n; i++ {
		if i > 0 {
			sb.WriteByte(',')
		}
		sb.WriteString(strconv.Itoa(cpuAllowed[i]))
	}
	return sb.String()
}

func parseTrace(b []byte) []TraceOp {
	var ops []TraceOp
	idx := map[int]int{}
	for _, line := range strings.Split(string(b), "\n") {
		f := strings.SplitN(line, " ", 3)
		if len(f) < 3 {
			continue
		}
		seq, err := strconv.Atoi(f[0])
		if err != nil {
			continue
		}
		rest := f[2]
		switch f[1] {
		case "intent":
			if i := strings.LastIndex(rest, " flag="); i >= 0 {
				rest = rest[:i]
			}
			op := TraceOp{Seq: seq, Op: rest}
			kp := strings.SplitN(rest, " ", 2)
			op.Kind = kp[0]
			if len(kp) > 1 {
				op.Path = kp[1]
			}
			idx[seq] = len(ops)
			ops = append(ops, op)
		case "done":
			if i, ok := idx[seq]; ok {
				ops[i].Done = true
				if j := strings.LastIndex(rest, " n="); j >= 0 {
					tail := rest[j+3:]
					parts := strings.SplitN(tail, " ", 2)
					ops[i].N, _ = strconv.Atoi(parts[0])
					if len(parts) > 1 && strings.HasPrefix(parts[1], "err=") {
						ops[i].Err = parts[1][4:]
					}
				}
			}
		}
	}
	return ops
}

// NewWork creates a fresh work directory (tmpfs when available).
func NewWork(base string) (string, error) {
	return os.MkdirTemp(base, "run")
}

// ScratchBase picks the directory for scenario roots: tmpfs when there is one.
func ScratchBase() string {
	// scenario roots of runs that were killed before they could clean up (tmpfs is RAM)
	if old, _ := filepath.Glob("/dev/shm/verif-cli-*"); len(old) > 0 {
		for _, d := range old {
			if st, err := os.Stat(d); err == nil && time.Since(st.ModTime()) > 2*time.Hour {
				os.RemoveAll(d)
			}
		}
	}
	if st, err := os.Stat("/dev/shm"); err == nil && st.IsDir() {
		if d, err := os.MkdirTemp("/dev/shm", "verif-cli-"); err == nil {
			return d
		}
	}
	d, _ := os.MkdirTemp("", "verif-cli-")
	return d
}
