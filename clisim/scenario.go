// Package clisim is the parent side of the CLI simulation: it builds scenario trees and
// invocations from the choice tape, computes the expected file system from library calls
// (the model), runs the instrumented cmd/minify child under a plan (schedule, crash point,
// injected errors) and judges the disk image it leaves.
package clisim

import (
	"bytes"
	"crypto/sha256"
	"encoding/hex"
	"fmt"
	"os"
	"path/filepath"
	"sort"
	"strings"
	"syscall"
)

const (
	KFile = iota
	KDir
	KSymlink
	KHardlink
)

// Entry is one node of the scenario tree (paths relative to the scenario root).
type Entry struct {
	Path   string
	Kind   int
	Data   []byte
	Target string // symlink target (as written) or hard-link source path
	Mode   os.FileMode
	// StaleBak: a file that already occupies the name <input>.bak before an in-place run. The
	// command takes that name for its own backup; what becomes of a file already there is not
	// pinned by the README, so it is not judged - it is there to see whether the command
	// confuses it with its own backup.
	StaleBak bool
}

// Tree is a scenario directory tree.
type Tree struct{ Entries []Entry }

func (t *Tree) Lookup(p string) *Entry {
	for i := range t.Entries {
		if t.Entries[i].Path == p {
			return &t.Entries[i]
		}
	}
	// directories may be implied by the files below them
	for i := range t.Entries {
		if strings.HasPrefix(t.Entries[i].Path, p+"/") {
			return &Entry{Path: p, Kind: KDir}
		}
	}
	if p == "." {
		return &Entry{Path: ".", Kind: KDir}
	}
	return nil
}

// Materialise creates the tree under root (which must not exist).
func (t *Tree) Materialise(root string) error {
	if err := os.MkdirAll(root, 0o755); err != nil {
		return err
	}
	for _, e := range t.Entries {
		p := filepath.Join(root, e.Path)
		if err := os.MkdirAll(filepath.Dir(p), 0o755); err != nil {
			return err
		}
		switch e.Kind {
		case KDir:
			if err := os.MkdirAll(p, 0o755); err != nil {
				return err
			}
		case KFile:
			mode := e.Mode
			if mode == 0 {
				mode = 0o644
			}
			if err := os.WriteFile(p, e.Data, mode); err != nil {
				return err
			}
			if err := os.Chmod(p, mode); err != nil {
				return err
			}
		case KSymlink:
			if err := os.Symlink(e.Target, p); err != nil {
				return err
			}
		case KHardlink:
			if err := os.Link(filepath.Join(root, e.Target), p); err != nil {
				return err
			}
		}
	}
	return nil
}

// Node is what a snapshot records about one path.
type Node struct {
	Kind   string // file | dir | symlink | other
	Sum    string // sha256 of the content (files)
	Size   int64
	Target string // symlinks
	Mode   os.FileMode
	Ino    uint64
	Data   []byte // kept for small files
}

// Snapshot walks root without following symlinks.
func Snapshot(root string) (map[string]Node, error) {
	out := map[string]Node{}
	err := filepath.Walk(root, func(p string, info os.FileInfo, err error) error {
		if err != nil {
			return err
		}
		rel, _ := filepath.Rel(root, p)
		if rel == "." {
			return nil
		}
		n := Node{Mode: info.Mode().Perm()}
		if st, ok := info.Sys().(*syscall.Stat_t); ok {
			n.Ino = st.Ino
		}
		switch {
		case info.Mode()&os.ModeSymlink != 0:
			n.Kind = "symlink"
			n.Target, _ = os.Readlink(p)
		case info.IsDir():
			n.Kind = "dir"
		case info.Mode().IsRegular():
			n.Kind = "file"
			b, err := os.ReadFile(p)
			if err != nil {
				return err
			}
			h := sha256.Sum256(b)
			n.Sum, n.Size = hex.EncodeToString(h[:8]), int64(len(b))
			n.Data = b
		default:
			n.Kind = "other"
		}
		out[rel] = n
		return nil
	})
	return out, err
}

func paths(m map[string]Node) []string {
	var ps []string
	for p := range m {
		ps = append(ps, p)
	}
	sort.Strings(ps)
	return ps
}

// DescribeTree is a compact listing for samples and violation details.
func DescribeTree(t *Tree) string {
	var b strings.Builder
	for _, e := range t.Entries {
		switch e.Kind {
		case KDir:
			fmt.Fprintf(&b, "%s/ ", e.Path)
		case KFile:
			fmt.Fprintf(&b, "%s(%dB) ", e.Path, len(e.Data))
		case KSymlink:
			fmt.Fprintf(&b, "%s->%s ", e.Path, e.Target)
		case KHardlink:
			fmt.Fprintf(&b, "%s=%s ", e.Path, e.Target)
		}
	}
	return strings.TrimSpace(b.String())
}

func short(b []byte, n int) string {
	s := string(bytes.ToValidUTF8(b, []byte("?")))
	if len(s) > n {
		return fmt.Sprintf("%q…(%d bytes)", s[:n], len(b))
	}
	return fmt.Sprintf("%q", s)
}
