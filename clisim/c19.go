package clisim

import (
	"fmt"
	"os"
	"path/filepath"
	"regexp"
	"sort"
	"strings"
	"syscall"

	"verif/sim"
)

// Only operations whose failure the command handles explicitly (open/rename/mkdir/write/
// read/close/remove through try.Do or an error return) are made to fail. A failing stat is
// not injected: SameFile ignores its error and the in-place protection is then skipped,
// which no property speaks about (recorded as an observation in DESIGN.md).
var injectKinds = []string{"opentrunc", "write", "rename", "open", "mkdirall", "remove", "read", "close", "chmod", "chown", "chtimes"}
var injectErrnos = []syscall.Errno{syscall.ENOSPC, syscall.EIO, syscall.EACCES, syscall.EMFILE, syscall.EINTR, syscall.EPERM}

// judgeFinal compares the file system after a complete fault-free run with the model.
func judgeFinal(c *Case, ex *Expectation, root string, before map[string]Node, co *ChildOut) *sim.Violation {
	site := c.Shape
	v := func(kind, detail string) *sim.Violation {
		return &sim.Violation{Kind: kind, Site: site, Detail: detail}
	}
	after, err := Snapshot(root)
	if err != nil {
		return v("snapshot-failed", err.Error())
	}
	exit := co.ExitCode
	if co.Res != nil {
		exit = co.Res.Exit
	}
	if ex.Rejected {
		if exit == 0 {
			return v("exit-status", fmt.Sprintf("the invocation must be refused (%s) but the exit status is 0", ex.Reason))
		}
		for _, p := range paths(after) {
			if _, ok := before[p]; !ok {
				return v("wrote-although-refused", fmt.Sprintf("refused invocation (%s) created %s", ex.Reason, p))
			}
		}
		for _, p := range paths(before) {
			a, ok := after[p]
			if !ok || a.Kind != before[p].Kind || a.Sum != before[p].Sum || a.Target != before[p].Target {
				return v("other-file-modified", fmt.Sprintf("refused invocation (%s) changed %s", ex.Reason, p))
			}
		}
		if len(co.Stdout) != 0 {
			return v("stdout", fmt.Sprintf("refused invocation wrote %d bytes to stdout", len(co.Stdout)))
		}
		return nil
	}
	if (exit != 0) != ex.ExitNZ {
		return v("exit-status", fmt.Sprintf("exit status %d, but %s", exit, map[bool]string{true: "a selected file cannot be minified, so it must be non-zero", false: "every selected file can be minified, so it must be 0"}[ex.ExitNZ]))
	}
	allowed := map[string]bool{} // paths the run may create or replace
	if strings.HasSuffix(c.Inv.Output, "/") || ex.DirDst {
		// the output directory itself is created even when nothing is selected
		for p := filepath.Clean(c.Inv.relOutput()); p != "." && p != "/"; p = filepath.Dir(p) {
			allowed[p] = true
		}
	}
	for _, j := range ex.Jobs {
		if j.Dst == "" {
			if !sameBytes(co.Stdout, j.Want) {
				return v("stdout", fmt.Sprintf("stdout holds %s, the library gives %s for %v", descr(co.Stdout, true), descr(j.Want, true), j.Srcs))
			}
			continue
		}
		d := filepath.Clean(j.Dst)
		if j.Blocked {
			// cannot be written: nothing about it is allowed to appear, and the file in the way
			// is judged below like any other file that is no destination
			continue
		}
		allowed[d] = true
		for p := filepath.Dir(d); p != "." && p != "/"; p = filepath.Dir(p) {
			allowed[p] = true
		}
		got, ok := readThrough(root, d)
		if !ok {
			return v("destination-missing", fmt.Sprintf("%s was not written (sources %v)", d, j.Srcs))
		}
		if !sameBytes(got, j.Want) {
			what := "the library's output"
			if j.Copy {
				what = "the verbatim copy (file not selected, sync mode)"
			} else if j.Failed {
				what = "the original bytes (the library rejects this input)"
			}
			return v("destination-content", fmt.Sprintf("%s holds %s, expected %s %s (sources %v, type %s)", d, descr(got, true), what, descr(j.Want, true), j.Srcs, j.Type))
		}
	}
	if len(ex.Jobs) > 0 && ex.Jobs[0].Dst != "" && len(co.Stdout) > 0 && c.Inv.Quiet {
		return v("stdout", "quiet mode wrote to stdout")
	}
	for _, p := range paths(after) {
		if _, ok := before[p]; ok || allowed[p] {
			continue
		}
		if strings.HasSuffix(p, ".bak") {
			return v("leftover-backup", fmt.Sprintf("%s exists after a complete run (holds %s)", p, descr(after[p].Data, after[p].Kind == "file")))
		}
		return v("unexpected-file", fmt.Sprintf("%s was created but is no destination of this invocation", p))
	}
	stale := map[string]bool{}
	for _, e := range c.Tree.Entries {
		if e.StaleBak {
			stale[e.Path] = true
		}
	}
	for _, p := range paths(before) {
		if stale[p] {
			continue // a file in the way of the command's own backup name: not judged (see Entry.StaleBak)
		}
		if allowed[p] {
			// a destination (or one of its parent directories) that existed before
			continue
		}
		isAlias := false
		for d := range allowed {
			if c.Tree.aliasOf(p, d) {
				isAlias = true
			}
		}
		if isAlias {
			continue
		}
		a, ok := after[p]
		b := before[p]
		if !ok {
			return v("other-file-modified", fmt.Sprintf("%s disappeared", p))
		}
		if a.Kind != b.Kind || a.Sum != b.Sum || a.Target != b.Target {
			return v("other-file-modified", fmt.Sprintf("%s is not a destination but changed from %s to %s", p, descr(b.Data, b.Kind == "file"), descr(a.Data, a.Kind == "file")))
		}
		if b.Kind == "file" && a.Mode != b.Mode {
			return v("other-file-modified", fmt.Sprintf("%s is not a destination but its mode changed from %o to %o", p, b.Mode, a.Mode))
		}
	}
	return nil
}

// C19Case: one scenario, run fault-free under two worker schedules and judged against the
// model; optionally a third run with one injected I/O error, judged only for the clauses
// the property states under errors (no other file modified, inputs not harmed).
func C19Case(r *Runner, base string, tape *sim.Tape) *Outcome {
	out := &Outcome{}
	c := GenCase(tape, false)
	sched, stick := drawSchedule(tape)
	sched2, stick2 := drawSchedule(tape)
	chunks := drawIOChunks(tape, c.Tree, c.Inv.Stdin, true)
	if chunks != nil {
		out.stat("knob_io_buffer_sizes_chosen_by_plan", 1)
	}
	withFault := tape.Draw(3) == 0
	var inj *Inject
	if withFault {
		inj = &Inject{Kind: injectKinds[tape.Draw(len(injectKinds))], PathRe: ".", Nth: tape.Draw(4),
			Times: []int{1, 2, 3, 4, 5, -1}[tape.Draw(6)], Errno: int(injectErrnos[tape.Draw(len(injectErrnos))]), Short: tape.Draw(2) == 0}
	}
	// where the error lands: 0 = one of the first occurrences of the operation anywhere (as
	// drawn above); 1 = the LAST occurrence on one path of the fault-free run (the final
	// flush, the last read before EOF, the closing rename); 2 = any occurrence on one path
	nthMode, nthPick := tape.Draw(3), tape.Draw(1<<20)
	var trace0 []TraceOp
	// a file of several MiB is rare and expensive: when there is one, always spend the third
	// run on it and aim the error at the operation that touches it most often (its last
	// write / read), where a streaming implementation has the most state in flight
	aimBusiest := false
	for _, e := range c.Tree.Entries {
		if len(e.Data) >= 4<<20 {
			aimBusiest = true
		}
	}
	if aimBusiest {
		out.stat("scenarios_with_file_of_several_MiB", 1)
		if inj == nil {
			inj = &Inject{Kind: []string{"write", "write", "write", "read"}[nthPick%4], PathRe: ".", Times: []int{1, 1, 2, -1}[(nthPick>>2)%4], Errno: int(syscall.ENOSPC)}
		}
		if nthMode == 0 {
			nthMode = 1
		}
	}
	if c.Inv.StaleBaks > 0 {
		out.stat("scenarios_with_a_file_already_named_like_the_backup", 1)
	}
	ex := c.Inv.Expect(c.Tree)
	out.stat("shape_"+c.Shape, 1)
	for _, e := range c.Tree.Entries {
		if e.Kind == KFile && strings.Count(e.Path, "/") > 32 {
			out.stat("scenarios_with_file_below_more_than_32_directories", 1)
			break
		}
	}
	if c.Inv.Prepopulated > 0 {
		out.stat("scenarios_with_prepopulated_destinations", 1)
	}
	if c.Inv.AbsInputs {
		out.stat("scenarios_with_absolute_input_paths", 1)
		inj = nil // fault-free only: error aiming works on relative names
	}
	if c.Inv.Chroot {
		out.stat("scenarios_run_with_the_tree_as_file_system_root", 1)
	}
	if len(c.Inv.Blockers) > 0 {
		out.stat("scenarios_with_a_file_where_a_directory_is_needed", 1)
	}
	work, err := NewWork(base)
	if err != nil {
		out.Infra = err.Error()
		return out
	}
	defer os.RemoveAll(work)
	root := filepath.Join(work, "root")
	fresh := func() (map[string]Node, error) {
		os.RemoveAll(root)
		if err := c.Tree.Materialise(root); err != nil {
			return nil, err
		}
		return Snapshot(root)
	}
	describe := func() string {
		return fmt.Sprintf(" [args=%v; tree=%s]", c.Inv.Args(), DescribeTree(c.Tree))
	}
	out.Sample = map[string]any{"shape": c.Shape, "args": c.Inv.Args(), "tree": DescribeTree(c.Tree), "jobs": len(ex.Jobs), "refused": ex.Rejected}
	var hashes []uint64
	for run := 0; run < 2; run++ {
		before, err := fresh()
		if err != nil {
			out.Infra = "materialise: " + err.Error()
			return out
		}
		p := &Plan{Tape: sched, Stick: stick, CrashAt: -1, TornAt: -1, Chunks: chunks}
		if run == 1 {
			p.Tape, p.Stick = sched2, stick2
		}
		co, err := r.Run(work, c.Inv, p)
		if err != nil {
			out.Infra = err.Error()
			return out
		}
		out.Evals++
		if run == 0 {
			trace0 = co.Trace
		}
		if co.Res != nil {
			out.stat("fs_ops", int64(co.Res.Ops))
			out.stat("sched_preemptions", int64(co.Res.Preempts))
			if co.Res.MaxParked >= 2 {
				out.stat("probe_two_workers_in_flight", 1)
			}
			if co.Res.NumCPU > 0 && co.Res.NumCPU <= 4 {
				out.stat("runs_with_worker_pool_of_4", 1)
			} else if co.Res.NumCPU > 0 && co.Res.NumCPU < 12 {
				out.stat("runs_with_worker_pool_of_5_to_11", 1)
			}
			hashes = append(hashes, co.Res.SchedHash)
			if co.Res.Deadlock {
				out.V = &sim.Violation{Kind: "deadlock", Site: c.Shape, Detail: "the command stopped making progress" + describe()}
				return out
			}
			if co.Res.Exit == -4 {
				out.Skipped = "the child's operation budget was exhausted (scenario too large for the chosen io buffer sizes)" + describe()
				return out
			}
		}
		if co.Killed {
			out.Infra = "fault-free child was killed: " + co.TestOut
			return out
		}
		if ex.Unsure != "" || ex.UnsureFinal != "" {
			out.stat("scenarios_not_judged_undocumented_shape", 1)
			break
		}
		if v := judgeFinal(c, ex, root, before, co); v != nil {
			v.Detail += describe() + "\nstderr: " + short(co.Stderr, 400)
			out.V = v
			return out
		}
		if ex.Rejected {
			out.stat("refused_invocations", 1)
			break
		}
		for _, j := range ex.Jobs {
			if j.Failed {
				out.stat("probe_file_rejected_by_library", 1)
			}
			if j.Copy {
				out.stat("probe_sync_copy", 1)
			}
			if len(j.Srcs) > 1 {
				out.stat("probe_bundle", 1)
			}
			for _, s := range j.Srcs {
				if j.Dst != "" && (filepath.Clean(s) == filepath.Clean(j.Dst) || c.Tree.aliasOf(s, j.Dst)) {
					out.stat("probe_minified_onto_itself", 1)
				}
			}
		}
		if len(ex.Jobs) < 2 {
			break // a single task runs sequentially: one schedule only
		}
	}
	out.Nontrivial = len(hashes)
	sort.Slice(hashes, func(i, j int) bool { return hashes[i] < hashes[j] })
	if len(hashes) > 0 {
		out.Key = hashes[0]
	}
	if inj != nil && ex.Unsure == "" && ex.UnsureFinal == "" && !ex.Rejected {
		if _, err := fresh(); err != nil {
			out.Infra = "materialise: " + err.Error()
			return out
		}
		if nthMode > 0 {
			count := map[string]int{}
			var names []string
			for _, op := range trace0 {
				if op.Kind == inj.Kind && op.Path != "" && !strings.HasPrefix(op.Path, "<") {
					if count[op.Path] == 0 {
						names = append(names, op.Path)
					}
					count[op.Path]++
				}
			}
			sort.Strings(names)
			if len(names) > 0 {
				name := names[nthPick%len(names)]
				if aimBusiest {
					for _, n := range names {
						if count[n] > count[name] {
							name = n
						}
					}
				}
				inj.PathRe = "^" + regexp.QuoteMeta(name) + "$"
				inj.Nth = count[name] - 1
				if nthMode == 2 {
					inj.Nth = (nthPick >> 8) % count[name]
				}
				out.stat("io_error_aimed_at_one_path", 1)
				if nthMode == 1 && count[name] > 1 {
					out.stat("io_error_on_last_of_several_occurrences", 1)
				}
			}
		}
		p := &Plan{Tape: sched, Stick: stick, CrashAt: -1, TornAt: -1, Inject: []*Inject{inj}, Chunks: chunks}
		co, err := r.Run(work, c.Inv, p)
		if err != nil {
			out.Infra = err.Error()
			return out
		}
		out.Evals++
		fired := 0
		if co.Res != nil {
			for k, n := range co.Res.Fired {
				out.stat("fault_fired_"+k, int64(n))
				fired += n
			}
			if co.Res.Deadlock {
				out.V = &sim.Violation{Kind: "deadlock", Site: c.Shape + ":io-error", Detail: fmt.Sprintf("the command stopped making progress after an injected %s on %s", syscall.Errno(inj.Errno), inj.Kind) + describe()}
				return out
			}
		}
		if fired > 0 {
			out.Nontrivial++
			out.stat("runs_with_injected_io_error", 1)
			// under an I/O error only: no other file modified, inputs not harmed
			if v := judgeCrashImage(c, ex, root, "io-error-"+inj.Kind); v != nil {
				v.Detail += fmt.Sprintf(" [after injected %s on %s (occurrence %d, %d times)]", syscall.Errno(inj.Errno), inj.Kind, inj.Nth, inj.Times) + describe()
				out.V = v
				return out
			}
			// "If minifying a file fails ... the exit status is non-zero": a selected input that
			// cannot be read (every read fails, for good) is such a failure, also in the
			// middle of a bundle
			if inj.Kind == "read" && inj.Times < 0 && syscall.Errno(inj.Errno) != syscall.EINTR && co.Res != nil && !co.Killed && len(ex.Jobs) > 0 {
				out.stat("runs_with_permanent_read_error_judged_for_exit_status", 1)
				if co.Res.Exit == 0 {
					out.V = &sim.Violation{Kind: "exit-status", Site: c.Shape + ":io-error-read",
						Detail: fmt.Sprintf("every read failed with %s from occurrence %d on (%d reads failed), yet the exit status is 0", syscall.Errno(inj.Errno), inj.Nth, fired) + describe()}
					return out
				}
			}
		}
	}
	return out
}
