package clisim

import (
	"bytes"
	"fmt"
	"os"
	"path/filepath"
	"strings"

	"verif/sim"
)

// Content samples per extension: valid documents with something to minify, documents the
// library rejects, empty files and files larger than one copy buffer (32 KiB).
var goodContent = map[string][]string{
	"css": {"a { background : url( \"http://example.com/a/img/x.png\" ) ; width : 1.23456px ; color : #ff0000 }\n", "a { color : red ; }\n", "/* c */ .x > p { margin : 0px ; padding : 1.0em }\n@media screen { b { top : 0 } }\n"},
	"js": {"var x = 1 + 2 ;\nconsole.log( x ) ;\n", "function f ( a , b ) { return a + b }\nf( 1 , 2 )\n", "let s = 'x' // end",
		"var p = 3.14159265358979 ; var q = a == null ? b : a ; var r = Math.pow( x , 2 ) ; try { f ( ) } catch ( e ) { } var o = { a : a , \"b\" : 1e3 } ;\n"},
	"mjs": {"export default function ( a ) { return a * 2 }\n"},
	"html": {"<p> hi </p>\n", "<!DOCTYPE html><html><head><title> t </title><link rel=\"stylesheet\" type=\"text/css\" href=\"http://example.com/a/s.css\"></head><body><!--[if IE]> x <![endif]--><!--# include virtual=\"x\" --><input type=\"text\" value=\"\"><a href=\"http://example.com/a/b.html\"> l </a><a href=\"https://example.com/c\"> m </a><form method=\"get\"><script type=\"text/javascript\"> var z = 1.23456789 ; </script></form></body></html>\n",
		"<!DOCTYPE html><html><head><style> a { b : c } </style></head><body><script> var q = 1 ; </script><p>  t  </p></body></html>\n",
		"<!-- note --><ul><li class=\"a b\"> one </li><li id=\"x\"> two </li></ul><p title=\"t\">  spaced   text  </p>\n"},
	"tmpl":       {"<!-- c --><p title=\"x\">  {{ .Name }}  </p><ul><li> a </li></ul>\n"},
	"gohtml":     {"<div id=\"d\">  {{ range .Items }} <b> {{ . }} </b> {{ end }}  </div><!-- c -->\n"},
	"mustache":   {"<p class=\"k\">  {{ name }}  </p><!-- c --><ol><li> x </li></ol>\n"},
	"handlebars": {"<p>  {{#if a}} yes {{/if}}  </p><!-- c -->\n"},
	"php":        {"<!-- c --><p title=\"x\">  <?php echo 1 ; ?>  </p><ul><li> a </li></ul>\n"},
	"asp":        {"<p title=\"x\">  <% x %>  </p><!-- c --><ul><li> a </li></ul>\n"},
	"ejs":        {"<p title=\"x\">  <%= x %>  </p><!-- c -->\n"},
	"htm":        {"<div>  a  <b> c </b></div>\n"},
	"json":       {"{ \"a\" : [ 1 , 2.0 , 3 ] }\n", "[ true , null ]\n"},
	"svg":        {"<svg xmlns=\"http://www.w3.org/2000/svg\"><!-- kept? --><path d=\"M 10.12345 10.98765 L 20.55555 20.44444\" style=\"fill : #ff0000\"/><a href=\"http://example.com/a/x\"><text> t </text></a></svg>\n", "<svg xmlns=\"http://www.w3.org/2000/svg\">  <path d=\"M 10 10 L 20 20\"/>  </svg>\n"},
	"xml":        {"<?xml version=\"1.0\"?>\n<a>  <b c = \"d\"> t </b>  </a>\n"},
	"txt":        {"plain  text  file\n"},
	"md":         {"# title\n\n text \n"},
	"scss":       {"a { b : c ; }\n"},
	"":           {"no extension\n"},
}

var badContent = map[string][]string{
	// several of these make the minifier rewrite part of its input before it fails
	"js":   {"var x = ;\n", "function ( {\n", "var big = 1000000.0 ; var y = ;\n"},
	"mjs":  {"export = ;\n"},
	"json": {"{ \"a\" : , }\n", "{ \"a\" : 1000.0 , \"b\" : 0.50 , \"c\" : }\n"},
	"css":  {}, // the CSS minifier accepts anything
	"html": {"<p>x</p><script>var a = ;</script>\n", "<DIV CLASS=\"A\">  Upper   Case  </DIV><P>x</P><script>var a = ;</script>\n"},
	"tmpl": {"<DIV>  {{ .X }}  </DIV><script>var a = ;</script>\n"},
	"php":  {"<DIV>  <?php 1 ?>  </DIV><script>var a = ;</script>\n"},
	"svg":  {"<svg><style> a { b : ( } </style><![CDATA[ x", "<SVG WIDTH=\"10.00\"><path d=\"M 10.0 10.0 L 20.50 20.50\"/><style> a { b : ( } </style></SVG>"},
	"xml":  {},
}

// types whose minifier is linear enough for inputs of several MiB (the JS minifier is not:
// 1.6 MB of consecutive var statements take 38 s, see DESIGN §8.4)
var hugeOK = map[string]bool{"css": true, "json": true, "svg": true, "xml": true, "txt": true, "md": true}

var noHuge bool

var minifiableExts = []string{"css", "js", "html", "json", "svg", "xml", "mjs", "htm", "tmpl", "php", "asp", "gohtml", "mustache", "handlebars", "ejs"}
var otherExts = []string{"txt", "md", ""}

// Content draws a file body for ext. kind: 0 good, 1 rejected by the library (when the type
// has such a sample), 2 empty, 3 large (> 32 KiB, several copy rounds).
func Content(tape *sim.Tape, ext string, allowBad bool) ([]byte, string) {
	k := tape.Draw(8)
	good := goodContent[ext]
	if len(good) == 0 {
		good = goodContent["txt"]
	}
	switch {
	case k == 4:
		return sized(tape, ext), "sized"
	case k == 5 && allowBad && len(badContent[ext]) > 0:
		b := badContent[ext]
		return []byte(b[tape.Draw(len(b))]), "bad"
	case k == 6:
		return []byte{}, "empty"
	case k == 7:
		base := good[tape.Draw(len(good))]
		var sb strings.Builder
		n := 0
		target := 33000 + tape.Draw(40000)
		kind := "large"
		if hugeOK[ext] && tape.Draw(5) == 0 && !noHuge {
			// several MiB: beyond any threshold at which a tool switches from buffering to
			// streaming, and hundreds of copy rounds in sync mode
			target = 4<<20 + tape.Draw(1<<20)
			kind = "huge"
		}
		for sb.Len() < target {
			switch ext {
			case "js", "mjs":
				fmt.Fprintf(&sb, "var v%d = %d + 1 ;\n", n, n)
			case "css", "scss":
				fmt.Fprintf(&sb, ".c%d { margin : %dpx ; }\n", n, n)
			case "json":
				if n == 0 {
					sb.WriteString("[ 0")
				}
				fmt.Fprintf(&sb, " , %d.0", n)
			case "html", "htm":
				fmt.Fprintf(&sb, "<p>  para %d  </p>\n", n)
			case "svg", "xml":
				if n == 0 {
					sb.WriteString("<svg>")
				}
				fmt.Fprintf(&sb, "  <g id=\"g%d\"> </g>\n", n)
			default:
				sb.WriteString(base)
			}
			n++
		}
		lateError := allowBad && (ext == "json" || ext == "js" || ext == "mjs") && tape.Draw(4) == 0
		switch {
		case lateError && ext == "json":
			// the library rejects the document only at its very end, after it has produced
			// nearly all of its output
			sb.WriteString(" }\n")
			kind += "-bad"
		case lateError:
			sb.WriteString("var = ;\n")
			kind += "-bad"
		case ext == "json":
			sb.WriteString(" ]\n")
		case ext == "svg" || ext == "xml":
			sb.WriteString("</svg>\n")
		}
		return []byte(sb.String()), kind
	}
	return []byte(good[tape.Draw(len(good))]), "good"
}

// Case is a generated scenario: tree, invocation and a label of its shape.
type Case struct {
	Tree  *Tree
	Inv   *Inv
	Shape string
}

func fileName(tape *sim.Tape, i int, exts []string) string {
	ext := exts[tape.Draw(len(exts))]
	if ext != "" && tape.Draw(14) == 0 {
		ext = strings.ToUpper(ext) // LOGO.SVG: extensions are looked up as written
	}
	names := []string{"a", "b", "main", "x.min", "index", "z", "my file", "-dash", "ünï", "UPPER"}
	n := names[tape.Draw(len(names))] + fmt.Sprint(i)
	if ext == "" {
		return n
	}
	return n + "." + ext
}

func extOf(p string) string {
	if i := strings.LastIndexByte(p, '.'); i >= 0 && !strings.Contains(p[i:], "/") {
		return p[i+1:]
	}
	return ""
}

// genDir fills directory dir of the tree with files (and, with depth left, sub-directories,
// hidden entries, unknown extensions).
func genDir(tape *sim.Tape, t *Tree, dir string, depth int, rich bool, counter *int) {
	t.Entries = append(t.Entries, Entry{Path: dir, Kind: KDir})
	n := 1 + tape.Draw(4)
	for i := 0; i < n; i++ {
		*counter++
		exts := minifiableExts
		if rich && tape.Draw(4) == 0 {
			exts = otherExts
		}
		name := fileName(tape, *counter, exts)
		if i > 0 && tape.Draw(4) == 0 {
			// same base name as the previous file, another type (a.css next to a.js)
			prev := t.Entries[len(t.Entries)-1].Path
			base := prev[strings.LastIndexByte(prev, '/')+1:]
			if j := strings.LastIndexByte(base, '.'); j > 0 {
				other := exts[tape.Draw(len(exts))]
				if cand := base[:j] + "." + other; other != "" && other != base[j+1:] && t.Lookup(dir+"/"+cand) == nil {
					name = cand
				}
			}
		}
		if rich && tape.Draw(8) == 0 {
			name = "." + name // hidden file
		}
		data, _ := Content(tape, extOf(name), true)
		t.Entries = append(t.Entries, Entry{Path: dir + "/" + name, Kind: KFile, Data: data, Mode: []os.FileMode{0o644, 0o644, 0o600, 0o755}[tape.Draw(4)]})
	}
	if depth > 0 && !strings.Contains(dir, "/") && tape.Draw(12) == 0 {
		// a chain of several dozen nested directories with one file at the bottom (node_modules
		// style): "every selected file" has no depth limit
		p := dir + "/deep"
		t.Entries = append(t.Entries, Entry{Path: p, Kind: KDir})
		for l, n := 0, 34+tape.Draw(12); l < n; l++ {
			p += "/" + string(rune('a'+l%26))
			t.Entries = append(t.Entries, Entry{Path: p, Kind: KDir})
		}
		*counter++
		name := fileName(tape, *counter, minifiableExts)
		data, _ := Content(tape, extOf(name), true)
		t.Entries = append(t.Entries, Entry{Path: p + "/" + name, Kind: KFile, Data: data, Mode: 0o644})
	}
	if depth > 0 && tape.Draw(2) == 0 {
		*counter++
		sub := []string{"sub", "lib", ".hid", "d"}[tape.Draw(4)] + fmt.Sprint(*counter)
		if !rich && strings.HasPrefix(sub, ".") {
			sub = "s" + sub[1:]
		}
		genDir(tape, t, dir+"/"+sub, depth-1, rich, counter)
	}
}

// Shapes of invocation. The C20 generator draws from the first group (those that create
// in-flight state on inputs); C19 draws from all.
var shapes = []string{
	"inplace-file", "inplace-dir", "inplace-bundle", "separate-file", "separate-dir", "sync-dir", "sync-inplace",
	"alias-symlink", "alias-hardlink", "stdin-file",
	"to-stdout", "bundle-stdout", "bundle-file", "many-files-dir", "dir-noslash", "filters", "type-override", "ext-map",
	"stdin-stdout", "rejected", "dir-without-r", "symlink-inputs", "big-dir", "dash-stdout", "many-failures", "sync-files",
}

const nCrashShapes = 10

// GenCase draws a scenario. crashBias restricts the shapes to those relevant for C20.
func GenCase(tape *sim.Tape, crashBias bool) *Case {
	// files of several MiB only where a scenario is run a handful of times (C19), not where it
	// is re-run once per crash point (C20). The draw is made either way, so one tape means
	// the same scenario apart from that size.
	noHuge = crashBias
	defer func() { noHuge = false }()
	n := len(shapes)
	if crashBias {
		n = nCrashShapes
	}
	shape := shapes[tape.Draw(n)]
	t := &Tree{}
	iv := &Inv{}
	counter := 0
	one := func(dir string, exts []string, allowBad bool) string {
		counter++
		name := fileName(tape, counter, exts)
		p := name
		if dir != "" {
			p = dir + "/" + name
		}
		data, _ := Content(tape, extOf(name), allowBad)
		t.Entries = append(t.Entries, Entry{Path: p, Kind: KFile, Data: data, Mode: 0o644})
		return p
	}
	// unrelated bystander files that must never change
	t.Entries = append(t.Entries, Entry{Path: "bystander.css", Kind: KFile, Data: []byte("x { y : z }\n"), Mode: 0o644})
	iv.Quiet = tape.Draw(3) == 0
	if tape.Draw(6) == 0 {
		iv.Verbose = 1 + tape.Draw(2) // verbose switches to the sequential path
	}
	switch shape {
	case "inplace-file":
		f := one("", minifiableExts, true)
		iv.Inputs, iv.Output = []string{f}, f
		if tape.Draw(3) == 0 {
			iv.Inputs[0] = "./" + f
		}
	case "inplace-dir":
		genDir(tape, t, "src", 1+tape.Draw(2), false, &counter)
		if tape.Draw(4) == 0 {
			// two siblings with the same very long stem: <name>.bak no longer fits into a
			// file name (255 bytes); whatever the command does then, it must not lose a file
			stem := strings.Repeat("n", 247+tape.Draw(5))
			for _, ext := range []string{"css", "js"} {
				counter++
				data, _ := Content(tape, ext, false)
				t.Entries = append(t.Entries, Entry{Path: "src/" + stem + "." + ext, Kind: KFile, Data: data, Mode: 0o644})
			}
		}
		iv.Recursive = true
		switch tape.Draw(9) {
		case 7: // the current directory itself, everything below it in place
			iv.Inputs, iv.Output = []string{"."}, "./"
		case 8:
			iv.Inputs, iv.Output = []string{"src/.."}, "."
		case 5: // the directory named through a trailing dot
			iv.Inputs, iv.Output = []string{"src/."}, "src/."
		case 6: // ... or through a parent reference
			iv.Inputs, iv.Output = []string{"src/../src/."}, "src/"
		case 0:
			iv.Inputs, iv.Output = []string{"src/"}, "src/"
		case 1:
			iv.Inputs, iv.Output = []string{"src"}, "./"
		case 2: // the same directory spelled differently
			iv.Inputs, iv.Output = []string{"src/"}, "./src/"
		case 3:
			iv.Inputs, iv.Output = []string{"./src/"}, "src/../src/"
		case 4:
			iv.Inputs, iv.Output = []string{"src"}, "@ROOT@/"
		}
	case "inplace-bundle":
		ext := []string{"js", "css", "html"}[tape.Draw(3)]
		a, b := one("", []string{ext}, true), one("", []string{ext}, true)
		iv.Bundle, iv.Inputs = true, []string{a, b}
		if tape.Draw(2) == 0 {
			iv.Inputs = append(iv.Inputs, one("", []string{ext}, true))
		}
		iv.Output = iv.Inputs[tape.Draw(len(iv.Inputs))]
	case "separate-file":
		f := one("", minifiableExts, true)
		iv.Inputs, iv.Output = []string{f}, "out."+extOf(f)
		if tape.Draw(2) == 0 { // destination exists already
			t.Entries = append(t.Entries, Entry{Path: iv.Output, Kind: KFile, Data: []byte("old destination content\n"), Mode: 0o644})
		}
	case "separate-dir":
		genDir(tape, t, "src", 1+tape.Draw(2), false, &counter)
		iv.Recursive = true
		iv.Inputs, iv.Output = []string{[]string{"src", "src/"}[tape.Draw(2)]}, "out/"
	case "sync-dir":
		genDir(tape, t, "src", 1+tape.Draw(2), true, &counter)
		iv.Recursive, iv.Sync = true, true
		iv.Inputs, iv.Output = []string{[]string{"src", "src/"}[tape.Draw(2)]}, "out/"
		iv.All = tape.Draw(2) == 0
	case "sync-inplace":
		genDir(tape, t, "src", 1, true, &counter)
		iv.Recursive, iv.Sync = true, true
		switch tape.Draw(4) {
		case 0, 1:
			iv.Inputs, iv.Output = []string{"src/"}, "src/"
		case 2: // the same directory spelled differently
			iv.Inputs, iv.Output = []string{"src/"}, "./src/../src/"
		case 3:
			iv.Inputs, iv.Output = []string{"src"}, "@ROOT@/"
		}
	case "alias-symlink":
		f := one("", minifiableExts, true)
		link := "link." + extOf(f)
		t.Entries = append(t.Entries, Entry{Path: link, Kind: KSymlink, Target: f})
		if tape.Draw(2) == 0 {
			iv.Inputs, iv.Output = []string{link}, f
		} else {
			iv.Inputs, iv.Output = []string{f}, link
		}
	case "alias-hardlink":
		f := one("", minifiableExts, true)
		link := "hard." + extOf(f)
		t.Entries = append(t.Entries, Entry{Path: link, Kind: KHardlink, Target: f})
		if tape.Draw(2) == 0 {
			iv.Inputs, iv.Output = []string{link}, f
		} else {
			iv.Inputs, iv.Output = []string{f}, link
		}
	case "stdin-file":
		ext := minifiableExts[tape.Draw(6)]
		iv.Stdin, _ = Content(tape, ext, true)
		iv.Type = ext
		iv.Output = "out." + ext
		iv.Preserve = ""
	case "to-stdout":
		f := one("", minifiableExts, true)
		iv.Inputs = []string{f}
	case "bundle-stdout", "bundle-file":
		ext := []string{"js", "css", "html", "json"}[tape.Draw(4)]
		k := 2 + tape.Draw(3)
		for i := 0; i < k; i++ {
			e := ext
			if ext == "js" && tape.Draw(3) == 0 {
				e = "mjs"
			}
			if tape.Draw(12) == 0 {
				e = "css" // a bundle of different types is refused
			}
			iv.Inputs = append(iv.Inputs, one("", []string{e}, true))
		}
		iv.Bundle = true
		if tape.Draw(4) == 0 {
			// the same file named twice: a bundle is the concatenation of the inputs as given
			iv.Inputs = append(iv.Inputs, iv.Inputs[tape.Draw(len(iv.Inputs))])
		}
		if shape == "bundle-file" {
			iv.Output = "bundle." + ext
		}
		if tape.Draw(4) == 0 { // bundle a directory
			t2 := &Tree{Entries: t.Entries}
			genDir(tape, t2, "styles", 0, false, &counter)
			t.Entries = t2.Entries
			iv.Inputs, iv.Recursive = []string{"styles"}, true
			iv.Type = ext
		}
	case "many-files-dir":
		k := 2 + tape.Draw(4)
		for i := 0; i < k; i++ {
			dir := ""
			if tape.Draw(3) == 0 {
				dir = "d" + fmt.Sprint(tape.Draw(2))
			}
			iv.Inputs = append(iv.Inputs, one(dir, minifiableExts, true))
		}
		iv.Output = []string{"out/", "out", "d0/", "d1", "./"}[tape.Draw(5)]
	case "dir-noslash":
		genDir(tape, t, "src", 1+tape.Draw(2), true, &counter)
		iv.Recursive = true
		iv.All = tape.Draw(3) == 0
		iv.Inputs, iv.Output = []string{"src"}, []string{"out/", "out", "deep/er/out/"}[tape.Draw(3)]
		if tape.Draw(3) == 0 {
			// overlapping inputs: a directory and, again, something inside it (another root,
			// so another place in the mirror)
			var inner []string
			for _, e := range t.Entries {
				if strings.HasPrefix(e.Path, "src/") && (e.Kind == KDir || e.Kind == KFile) && !strings.Contains(e.Path[4:], "/.") && !strings.HasPrefix(e.Path[4:], ".") {
					p := e.Path
					if e.Kind == KDir {
						p += []string{"", "/"}[tape.Draw(2)]
					}
					inner = append(inner, p)
				}
			}
			if len(inner) > 0 {
				iv.Inputs = append(iv.Inputs, inner[tape.Draw(len(inner))])
			}
		}
	case "filters":
		genDir(tape, t, "src", 2, true, &counter)
		iv.Recursive = true
		iv.Inputs, iv.Output = []string{[]string{"src", "src/"}[tape.Draw(2)]}, "out/"
		switch tape.Draw(8) {
		case 5: // a single star does not cross a slash: the sub-directory's files stay selected
			iv.Filters = []Filter{{false, "src/*"}}
		case 6: // an end-anchored expression that matches a directory path, not the files in it
			iv.Filters = []Filter{{false, "~/(sub|lib|d)[0-9]*$"}}
		case 7:
			iv.Filters = []Filter{{false, "src/sub*"}, {false, "src/lib*"}}
		case 0:
			iv.Match = []string{"*.js"}
		case 1:
			iv.Match = []string{"~\\.(css|html)$"}
		case 2:
			iv.Filters = []Filter{{false, "src/*/**"}}
		case 3:
			iv.Filters = []Filter{{false, "**/*.js"}, {true, "**/a*.js"}}
		case 4:
			iv.Match = []string{"*.css", "*.json"}
			iv.Filters = []Filter{{false, "~sub"}}
		}
		iv.Sync = tape.Draw(3) == 0
	case "type-override":
		counter++
		name := fmt.Sprintf("page%d.tpl", counter)
		data, _ := Content(tape, "html", true)
		t.Entries = append(t.Entries, Entry{Path: name, Kind: KFile, Data: data, Mode: 0o644})
		iv.Inputs, iv.Output = []string{name}, "page-min.tpl"
		iv.Type = []string{"html", "text/html"}[tape.Draw(2)]
	case "ext-map":
		genDir(tape, t, "src", 1, true, &counter)
		counter++
		data, _ := Content(tape, "css", true)
		t.Entries = append(t.Entries, Entry{Path: fmt.Sprintf("src/style%d.scss", counter), Kind: KFile, Data: data, Mode: 0o644})
		iv.Recursive = true
		iv.Ext = map[string]string{"scss": []string{"css", "text/css"}[tape.Draw(2)]}
		iv.Inputs, iv.Output = []string{"src/"}, "out/"
	case "stdin-stdout":
		ext := minifiableExts[tape.Draw(6)]
		iv.Stdin, _ = Content(tape, ext, true)
		iv.Type = []string{ext, ExtTypes[ext]}[tape.Draw(2)]
	case "rejected":
		f, g := one("", minifiableExts, false), one("", minifiableExts, false)
		switch tape.Draw(4) {
		case 0:
			iv.Inputs = []string{f, g} // several inputs to stdout without --bundle
		case 1:
			iv.Inputs, iv.Recursive = []string{f}, true // recursive to stdout
		case 2:
			iv.Inputs, iv.Output, iv.Bundle = []string{f, g}, "out/", true // bundle into a directory
		case 3:
			iv.Stdin = []byte("a{}") // stdin without --type
		}
	case "dir-without-r":
		genDir(tape, t, "src", 1, false, &counter)
		f := one("", minifiableExts, true)
		iv.Inputs, iv.Output = []string{"src", f}, "out/"
	case "big-dir":
		// more tasks than the worker pool plus its task channel can hold at once
		n := 40 + tape.Draw(40)
		t.Entries = append(t.Entries, Entry{Path: "src", Kind: KDir})
		for i := 0; i < n; i++ {
			counter++
			ext := minifiableExts[tape.Draw(8)]
			name := fmt.Sprintf("src/f%03d.%s", counter, ext)
			if tape.Draw(6) == 0 {
				name = fmt.Sprintf("src/d%d/f%03d.%s", tape.Draw(3), counter, ext)
			}
			good := goodContent[ext]
			data := []byte(good[tape.Draw(len(good))])
			if tape.Draw(10) == 0 && len(badContent[ext]) > 0 {
				data = []byte(badContent[ext][tape.Draw(len(badContent[ext]))])
			}
			t.Entries = append(t.Entries, Entry{Path: name, Kind: KFile, Data: data, Mode: 0o644})
		}
		iv.Recursive = true
		iv.Inputs, iv.Output = []string{[]string{"src", "src/"}[tape.Draw(2)]}, []string{"out/", "src/"}[tape.Draw(2)]
		if iv.Output == "src/" {
			iv.Inputs = []string{"src/"}
		}
		iv.Verbose = 0
	case "many-failures":
		// hundreds of files the library rejects in one invocation (the exit status is what a
		// parent process sees of the failure count)
		if tape.Draw(6) != 0 {
			// keep this expensive shape rare: fall back to a small in-place run
			f := one("", minifiableExts, true)
			iv.Inputs, iv.Output = []string{f}, f
			break
		}
		n := []int{255, 256, 257, 512, 300}[tape.Draw(5)]
		t.Entries = append(t.Entries, Entry{Path: "in", Kind: KDir})
		for i := 0; i < n; i++ {
			t.Entries = append(t.Entries, Entry{Path: fmt.Sprintf("in/bad%03d.json", i), Kind: KFile, Data: []byte("{ \"a\" : , }"), Mode: 0o644})
		}
		for i := 0; i < 3; i++ {
			t.Entries = append(t.Entries, Entry{Path: fmt.Sprintf("in/good%d.json", i), Kind: KFile, Data: []byte("[ 1 , 2 ]"), Mode: 0o644})
		}
		iv.Recursive, iv.Quiet = true, true
		iv.Inputs, iv.Output = []string{"in/"}, "out/"
		iv.Verbose = 0
	case "sync-files":
		// --sync with explicitly named files: selected ones are minified, the others copied
		k := 2 + tape.Draw(4)
		for i := 0; i < k; i++ {
			exts := minifiableExts
			if tape.Draw(2) == 0 {
				exts = otherExts
			}
			dir := ""
			if tape.Draw(3) == 0 {
				dir = "d" + fmt.Sprint(tape.Draw(2))
			}
			iv.Inputs = append(iv.Inputs, one(dir, exts, true))
		}
		iv.Sync = true
		iv.Output = "out/"
		if tape.Draw(3) == 0 {
			iv.Match = []string{[]string{"*.css", "*.js", "a*"}[tape.Draw(3)]}
		}
	case "dash-stdout":
		// "-" as output means stdout, "-" as the only input means stdin
		if tape.Draw(2) == 0 {
			f := one("", minifiableExts, true)
			iv.Inputs, iv.Output = []string{f}, "-"
		} else {
			ext := minifiableExts[tape.Draw(6)]
			iv.Stdin, _ = Content(tape, ext, true)
			iv.Type = ext
			iv.Inputs = []string{"-"}
			iv.Output = []string{"", "out." + ext}[tape.Draw(2)]
		}
	case "symlink-inputs":
		genDir(tape, t, "src", 1, false, &counter)
		f := one("real", minifiableExts, true)
		t.Entries = append(t.Entries, Entry{Path: "src/ln." + extOf(f), Kind: KSymlink, Target: "../" + f})
		t.Entries = append(t.Entries, Entry{Path: "src/lndir", Kind: KSymlink, Target: "../real"})
		switch tape.Draw(4) {
		case 0:
			// a second link to the same directory (two sites sharing one theme), ...
			t.Entries = append(t.Entries, Entry{Path: "src/lndir2", Kind: KSymlink, Target: "../real"})
		case 1:
			// ... or a link to the first link: every one of them is mirrored
			t.Entries = append(t.Entries, Entry{Path: "src/zz-chain", Kind: KSymlink, Target: "lndir"})
		}
		iv.Recursive = true
		iv.Inputs, iv.Output = []string{"src/"}, "out/"
	}
	// explicit preserve options (only where no symlink semantics are involved)
	hasLink := false
	for _, e := range t.Entries {
		if e.Kind == KSymlink || e.Kind == KHardlink {
			hasLink = true
		}
	}
	if !hasLink && tape.Draw(5) == 0 {
		iv.Preserve = []string{"mode", "timestamps", "mode,timestamps", "all"}[tape.Draw(4)]
	}
	// minifier option flags (model mirrors them into the library options)
	if tape.Draw(4) == 0 {
		iv.HTMLKeepEndTags, iv.HTMLKeepQuotes = tape.Draw(2) == 0, tape.Draw(2) == 0
		iv.HTMLKeepWhitespace, iv.HTMLKeepComments = tape.Draw(2) == 0, tape.Draw(2) == 0
		iv.JSKeepVarNames, iv.XMLKeepWhitespace, iv.JSONKeepNumbers = tape.Draw(2) == 0, tape.Draw(2) == 0, tape.Draw(2) == 0
		iv.CSSPrecision = []int{0, 1, 3}[tape.Draw(3)]
		iv.JSONPrecision = []int{0, 1}[tape.Draw(2)]
	}
	if tape.Draw(4) == 0 {
		iv.HTMLKeepSpecialComments, iv.HTMLKeepDefaultAttrVals = tape.Draw(2) == 0, tape.Draw(2) == 0
		iv.HTMLKeepDocumentTags, iv.SVGKeepComments = tape.Draw(2) == 0, tape.Draw(2) == 0
		iv.JSPrecision = []int{0, 1, 4}[tape.Draw(3)]
		iv.JSVersion = []int{0, 2018, 2019, 2020, 2022}[tape.Draw(5)]
		iv.SVGPrecision = []int{0, 1, 3}[tape.Draw(3)]
		iv.URL = []string{"", "http://example.com/a/", "https://example.com/", "//example.com"}[tape.Draw(4)]
	}
	if iv.Type != "" && tape.Draw(4) == 0 {
		iv.UseMime = true
	}
	// inputs named by their absolute paths; in half of these runs the scenario root is the
	// root of the file system (chroot in the child), as in a container image with WORKDIR /:
	// "/src" and "/a.css" lie directly below "/". Only for complete fault-free runs (C19):
	// path patterns of injected errors and crash points are written for relative names.
	if !crashBias && iv.Stdin == nil && len(iv.Filters) == 0 && tape.Draw(6) == 0 {
		ok := len(iv.Inputs) > 0
		for _, in := range iv.Inputs {
			// (an input that cleans to the scenario root itself, like "src/..", would be named
			// by the root's own directory name when absolute: not the same invocation)
			if in == "-" || strings.HasPrefix(in, ".") || strings.Contains(in, "..") || strings.HasPrefix(in, "@ROOT@") || strings.HasPrefix(in, "/") {
				ok = false
			}
		}
		if ok {
			for i, in := range iv.Inputs {
				iv.Inputs[i] = "@ROOT@/" + in
			}
			iv.AbsInputs = true
			iv.Chroot = tape.Draw(2) == 0
		}
	}
	// size of the worker pool: 4 (1 CPU), 6, 9 or whatever the machine gives
	if tape.Draw(2) == 0 {
		iv.CPUs = []int{1, 6, 9}[tape.Draw(3)]
	}
	// a second run over an output directory that is already populated: destinations that
	// exist before the run with unrelated, same-length, identical or nearly identical content
	// (written after the inputs, so not older than them)
	if tape.Draw(4) == 0 {
		if ex := iv.Expect(t); !ex.Rejected && ex.Unsure == "" {
			for _, j := range ex.Jobs {
				d := filepath.Clean(j.Dst)
				if j.Dst == "" || filepath.IsAbs(j.Dst) || strings.Contains(j.Dst, "@ROOT@") || strings.HasPrefix(d, "..") || t.Lookup(d) != nil || len(j.Srcs) == 0 {
					continue
				}
				k := tape.Draw(6)
				if k == 4 {
					// a FILE where the run needs a directory (left by an earlier run with another
					// layout): the destinations below it cannot be written, the file is not a
					// destination of this run and stays what it was, the other files are done
					par := filepath.Dir(d)
					if par != "." && par != "/" && par != filepath.Clean(iv.relOutput()) && t.Lookup(par) == nil && !iv.blockedBy(par) && !iv.blockedBy(d) {
						t.Entries = append(t.Entries, Entry{Path: par, Kind: KFile, Data: []byte("a file of an earlier run, where this run needs a directory\n"), Mode: 0o644})
						iv.Blockers = append(iv.Blockers, par)
					}
					continue
				}
				if k >= 4 || iv.blockedBy(d) {
					continue
				}
				var src []byte
				if e, _ := t.resolve(j.Srcs[0], 0); e != nil {
					src = e.Data
				}
				var data []byte
				switch k {
				case 0:
					data = []byte("stale destination\n")
				case 1:
					data = bytes.Repeat([]byte("#"), len(src))
				case 2:
					data = append([]byte(nil), src...)
				case 3:
					data = append([]byte(nil), src...)
					if len(data) > 0 {
						data[len(data)/2] ^= 0x20
					}
				}
				t.Entries = append(t.Entries, Entry{Path: d, Kind: KFile, Data: data, Mode: 0o644})
				iv.Prepopulated++
			}
		}
	}
	// a file that already has the name the command will use for its backup
	// (not in sync mode: there the file named x.bak is itself an input of the run and the two
	// tasks collide on the name - a hazard of the pinned tree recorded in DESIGN §8.4)
	if tape.Draw(6) == 0 && !iv.Sync {
		if ex := iv.Expect(t); !ex.Rejected && ex.Unsure == "" {
			for _, j := range ex.Jobs {
				for _, src := range j.Srcs {
					cs := filepath.Clean(src)
					if j.Dst == "" || !(cs == filepath.Clean(j.Dst) || t.aliasOf(src, j.Dst)) || len(filepath.Base(cs)) > 200 {
						continue
					}
					if t.Lookup(cs+".bak") == nil && tape.Draw(2) == 0 {
						t.Entries = append(t.Entries, Entry{Path: cs + ".bak", Kind: KFile, Data: []byte("an older version, kept by hand\n"), Mode: 0o644, StaleBak: true})
						iv.StaleBaks++
					}
				}
			}
		}
	}
	return &Case{Tree: t, Inv: iv, Shape: shape}
}

// sized builds a document of an exactly chosen size that ends in a comment without a
// trailing newline. Sizes are biased to just below powers of the buffer growth of
// io.ReadAll and io.Copy (a read or a separator then straddles two buffers); the
// unterminated line comment makes what follows the file in a bundle matter.
func sized(tape *sim.Tape, ext string) []byte {
	bounds := []int{512, 896, 1408, 2048, 3072, 4096, 5376, 6912, 8192, 32768, 65536}
	var size int
	if tape.Draw(2) == 0 {
		size = bounds[tape.Draw(len(bounds))] - tape.Draw(4)
	} else {
		size = 16 + tape.Draw(6000)
	}
	var head, tailS string
	switch ext {
	case "js", "mjs":
		head, tailS = "var q = 1 //", ""
	case "css", "scss":
		head, tailS = "a { b : c } /*", "*/"
	case "html", "htm":
		head, tailS = "<p> a </p><!--", "-->"
	case "svg", "xml":
		head, tailS = "<svg> <g/> <!--", "--></svg>"
	case "json":
		head, tailS = "[ 1 ,", " 2 ]"
	default:
		head, tailS = "text ", ""
	}
	pad := size - len(head) - len(tailS)
	if pad < 0 {
		pad = 0
	}
	fill := "x"
	if ext == "json" {
		fill = " "
	}
	return []byte(head + strings.Repeat(fill, pad) + tailS)
}
