package clisim

import (
	"bytes"
	"fmt"
	"os"
	"path/filepath"
	"strings"
	"syscall"

	"verif/sim"
)

// Outcome of one simulated case (one scenario with all its explored faults).
type Outcome struct {
	V          *sim.Violation
	Infra      string // infrastructure trouble: exit 2, never a violation
	// Skipped: this scenario could not be judged (the tree under test performs more
	// operations on it than a child may); counted, and infrastructure trouble only when it
	// is more than a rare exception
	Skipped string
	Key        uint64
	Nontrivial int // number of distinct non-trivial evaluations in this case
	Evals      int
	Sample     any
	Stats      map[string]int64
	Exhaustive bool
}

func (o *Outcome) stat(k string, n int64) {
	if o.Stats == nil {
		o.Stats = map[string]int64{}
	}
	o.Stats[k] += n
}

// drawSchedule draws the child's schedule tape and preemption bias. The schedule is one
// draw on the parent's tape (a sub-seed expanded here), so that a case's tape stays short
// and shrinks well; sub-seed 0 is the all-zero schedule: always continue with the goroutine
// that ran last, lowest operation first.
func drawSchedule(tape *sim.Tape) ([]uint64, int) {
	stick := []int{0, 1, 9}[tape.Draw(3)]
	sub := uint64(tape.Draw(1 << 30))
	vals := make([]uint64, 128)
	if sub != 0 {
		t := sim.NewTape(sub, "cli-schedule", 0)
		for i := range vals {
			vals[i] = uint64(t.Draw(1 << 16))
		}
	}
	return vals, stick
}

// drawIOChunks draws the buffer sizes the command's io.ReadAll / io.Copy will use (nil =
// the standard library's own pattern). fine allows sizes down to 1 byte for small trees.
func drawIOChunks(tape *sim.Tape, t *Tree, stdin []byte, fine bool) []int {
	total := len(stdin)
	for _, e := range t.Entries {
		total += len(e.Data)
	}
	mode := tape.Draw(4)
	if mode < 2 {
		return nil
	}
	n := 1 + tape.Draw(6)
	out := make([]int, n)
	for i := range out {
		switch {
		case mode == 3 && fine && total < 3000:
			out[i] = 1 + tape.Draw(4)
		case total < 20000 && fine:
			out[i] = 1 + tape.Draw(64)
		default:
			out[i] = total/8 + 64 + tape.Draw(4096)
		}
	}
	return out
}

func sameBytes(a, b []byte) bool { return bytes.Equal(a, b) }

func readThrough(root, p string) ([]byte, bool) {
	b, err := os.ReadFile(filepath.Join(root, p))
	if err != nil {
		return nil, false
	}
	return b, true
}

// aliasOf reports whether two scenario paths name the same file before the run.
func (t *Tree) aliasOf(a, b string) bool {
	ea, ra := t.resolve(a, 0)
	eb, rb := t.resolve(b, 0)
	return ea != nil && eb != nil && ra == rb
}

// judgeCrashImage applies the property's disjunction to the disk image left by a kill.
func judgeCrashImage(c *Case, ex *Expectation, root string, at string) *sim.Violation {
	written := map[string]bool{} // original paths that the run is entitled to replace
	for _, j := range ex.Jobs {
		if j.Dst == "" {
			continue
		}
		written[filepath.Clean(j.Dst)] = true
		for _, s := range j.Srcs {
			orig, _ := c.Tree.resolve(s, 0)
			if orig == nil {
				continue
			}
			B := orig.Data
			alias := filepath.Clean(s) == filepath.Clean(j.Dst) || c.Tree.aliasOf(s, j.Dst)
			names := []string{filepath.Clean(s)}
			if alias && filepath.Clean(s) != filepath.Clean(j.Dst) {
				names = append(names, filepath.Clean(j.Dst))
			}
			if !alias {
				// only read: strictly unchanged
				got, ok := readThrough(root, s)
				if !ok || !sameBytes(got, B) {
					return &sim.Violation{Kind: "read-only-input-modified", Site: c.Shape + ":" + at,
						Detail: fmt.Sprintf("input %s is only read (destination %s) but after the kill it holds %s instead of its %d original bytes", s, j.Dst, descr(got, ok), len(B))}
				}
				continue
			}
			okAny := false
			var seen []string
			for _, n := range names {
				got, ok := readThrough(root, n)
				seen = append(seen, fmt.Sprintf("%s=%s", n, descr(got, ok)))
				if ok && (sameBytes(got, B) || sameBytes(got, j.Want)) {
					okAny = true
				}
				bak, okb := readThrough(root, n+".bak")
				seen = append(seen, fmt.Sprintf("%s.bak=%s", n, descr(bak, okb)))
				if okb && sameBytes(bak, B) {
					okAny = true
				}
			}
			if !okAny {
				return &sim.Violation{Kind: "only-copy-lost", Site: c.Shape + ":" + at,
					Detail: fmt.Sprintf("after the kill neither %s holds the %d original bytes or the complete new output (%d bytes), nor does a .bak sibling hold the original: %s",
						strings.Join(names, "/"), len(B), len(j.Want), strings.Join(seen, ", "))}
			}
		}
	}
	// every other original path is untouched
	for _, e := range c.Tree.Entries {
		p := filepath.Clean(e.Path)
		if e.Kind == KDir || written[p] {
			continue
		}
		isAliasOfDst := false
		for d := range written {
			if c.Tree.aliasOf(p, d) {
				isAliasOfDst = true
			}
		}
		if isAliasOfDst {
			continue
		}
		skip := false
		for _, j := range ex.Jobs {
			for _, s := range j.Srcs {
				if filepath.Clean(s) == p && j.Dst != "" {
					skip = true // judged above
				}
			}
		}
		if skip || e.StaleBak {
			continue
		}
		switch e.Kind {
		case KFile, KHardlink:
			want := e.Data
			if e.Kind == KHardlink {
				if o, _ := c.Tree.resolve(e.Target, 0); o != nil {
					want = o.Data
				}
			}
			got, ok := readThrough(root, p)
			if !ok || !sameBytes(got, want) {
				return &sim.Violation{Kind: "bystander-modified", Site: c.Shape + ":" + at,
					Detail: fmt.Sprintf("%s is neither selected nor a destination, but after the kill it holds %s", p, descr(got, ok))}
			}
		case KSymlink:
			tgt, err := os.Readlink(filepath.Join(root, p))
			if err != nil || tgt != e.Target {
				return &sim.Violation{Kind: "bystander-modified", Site: c.Shape + ":" + at,
					Detail: fmt.Sprintf("symlink %s -> %s is not part of the work but after the kill it is %q (%v)", p, e.Target, tgt, err)}
			}
		}
	}
	return nil
}

func descr(b []byte, ok bool) string {
	if !ok {
		return "<missing>"
	}
	return fmt.Sprintf("%dB:%s", len(b), short(b, 24))
}

func tracePrefixEqual(a, b []TraceOp, n int) (bool, string) {
	for i := 0; i < n; i++ {
		if i >= len(a) || i >= len(b) {
			return false, fmt.Sprintf("trace ends at %d (want %d)", min(len(a), len(b)), n)
		}
		if a[i].Op != b[i].Op {
			return false, fmt.Sprintf("op %d: %q vs %q", i, a[i].Op, b[i].Op)
		}
	}
	return true, ""
}

// C20Case: one scenario; a fault-free run records the operation trace; then the child is
// killed before every operation that follows a mutating one (the states in between are
// identical on disk), and every write is additionally torn at several prefix lengths.
// focus >= 0 restricts the enumeration to one crash index (replay of a minimised case).
func C20Case(r *Runner, base string, tape *sim.Tape) *Outcome {
	out := &Outcome{}
	c := GenCase(tape, true)
	sched, stick := drawSchedule(tape)
	chunks := drawIOChunks(tape, c.Tree, c.Inv.Stdin, false)
	ex := c.Inv.Expect(c.Tree)
	out.stat("shape_"+c.Shape, 1)
	if chunks != nil {
		out.stat("knob_io_buffer_sizes_chosen_by_plan", 1)
	}
	work, err := NewWork(base)
	if err != nil {
		out.Infra = err.Error()
		return out
	}
	defer os.RemoveAll(work)
	root := filepath.Join(work, "root")
	fresh := func() error {
		os.RemoveAll(root)
		return c.Tree.Materialise(root)
	}
	if err := fresh(); err != nil {
		out.Infra = "materialise: " + err.Error()
		return out
	}
	plan := func() *Plan { return &Plan{Tape: sched, Stick: stick, CrashAt: -1, TornAt: -1, Chunks: chunks} }
	ff, err := r.Run(work, c.Inv, plan())
	if err != nil {
		out.Infra = err.Error()
		return out
	}
	if ff.Res == nil {
		out.Infra = "fault-free child left no result: " + ff.TestOut
		return out
	}
	out.Sample = map[string]any{"shape": c.Shape, "args": c.Inv.Args(), "tree": DescribeTree(c.Tree), "ops": ff.Res.Ops}
	if ff.Res.Deadlock {
		out.V = &sim.Violation{Kind: "deadlock", Site: c.Shape, Detail: "the command stopped making progress (all goroutines blocked) in the fault-free run"}
		return out
	}
	if ff.Res.Exit == -4 {
		out.Skipped = "the child's operation budget was exhausted (scenario too large for the chosen io buffer sizes): " + fmt.Sprint(c.Inv.Args())
		return out
	}
	if ex.Unsure != "" || ex.Rejected {
		// nothing is in flight for refused invocations; shapes the documentation does not
		// pin are not judged
		out.stat("scenarios_not_judged", 1)
		out.Evals = 1
		return out
	}
	K := len(ff.Trace)
	var points []int
	for k := 1; k <= K; k++ {
		if Mutating(ff.Trace[k-1].Kind) {
			points = append(points, k)
		}
	}
	if len(points) > 3000 {
		// each crash point is a whole run of the command: a tree that turns one scenario into
		// thousands of mutating operations (a large file streamed in tiny writes) cannot be
		// enumerated within any budget; counted as not judged
		out.Skipped = fmt.Sprintf("%d crash points in one scenario (%d operations): too many to enumerate: %v", len(points), K, c.Inv.Args())
		return out
	}
	out.stat("scenarios", 1)
	out.stat("fs_ops_fault_free", int64(K))
	out.stat("sched_steps", int64(ff.Res.Steps))
	if ff.Res.MaxParked >= 2 {
		out.stat("probe_two_workers_in_flight", 1)
	}
	sawRename := false
	for _, op := range ff.Trace {
		if op.Kind == "rename" {
			sawRename = true
		}
	}
	if sawRename {
		out.stat("probe_inplace_rename_path_taken", 1)
	}
	out.Exhaustive = true
	images := 0
	for _, k := range points {
		if err := fresh(); err != nil {
			out.Infra = "materialise: " + err.Error()
			return out
		}
		p := plan()
		p.CrashAt = k
		at := "after-" + ff.Trace[k-1].Kind
		if k == K {
			p.CrashAt = -1 // the end state of the complete run
			at = "end"
		}
		co, err := r.Run(work, c.Inv, p)
		if err != nil {
			out.Infra = err.Error()
			return out
		}
		// A run that does not reproduce the fault-free trace means the tree under test has a
		// source of nondeterminism outside the simulator's seams. The image it left is still
		// the image of a real execution and is judged; if it is fine the divergence itself is
		// infrastructure trouble (exit 2), never silently ignored.
		diverged := ""
		if k < K && !co.Killed {
			diverged = fmt.Sprintf("crash point %d of %d was not reached (schedule not reproduced): exit=%d", k, K, co.ExitCode)
		} else if ok, why := tracePrefixEqual(ff.Trace, co.Trace, min(k, K)); !ok {
			diverged = "crash run diverged from the fault-free trace: " + why
		}
		images++
		out.stat("fault_sigkill_before_op", 1)
		if v := judgeCrashImage(c, ex, root, at); v == nil && diverged != "" {
			out.Infra = diverged
			return out
		} else if v != nil {
			v.Detail += fmt.Sprintf(" [killed before operation %d of %d; last operations: %s; args=%v; tree=%s]", k, K, lastOps(ff.Trace, k, 6), c.Inv.Args(), DescribeTree(c.Tree))
			out.V = v
			return out
		}
		// torn variants of the write that has just been completed
		if k-1 < K && ff.Trace[k-1].Kind == "write" && ff.Trace[k-1].Path != "<stdout>" {
			n := ff.Trace[k-1].N
			for _, tn := range []int{1, n / 2, n - 1} {
				if tn <= 0 || tn >= n {
					continue
				}
				if err := fresh(); err != nil {
					out.Infra = "materialise: " + err.Error()
					return out
				}
				p := plan()
				p.TornAt, p.TornN = k-1, tn
				co, err := r.Run(work, c.Inv, p)
				if err != nil {
					out.Infra = err.Error()
					return out
				}
				images++
				out.stat("fault_torn_write", 1)
				if v := judgeCrashImage(c, ex, root, "torn-write"); v == nil && !co.Killed {
					out.Infra = fmt.Sprintf("torn write at op %d was not reached (schedule not reproduced)", k-1)
					return out
				} else if v != nil {
					v.Detail += fmt.Sprintf(" [write %d of %d torn after %d of %d bytes; args=%v; tree=%s]", k-1, K, tn, n, c.Inv.Args(), DescribeTree(c.Tree))
					out.V = v
					return out
				}
			}
		}
	}
	// Second enumeration (a quarter of the in-place scenarios; all of them in the thorough
	// tier): one write to a file fails (ENOSPC) so that the command's restore path runs, and
	// the process is killed at every boundary of THAT run: the backup must stay safe while it
	// is being put back.
	// Which operation fails: every write (ENOSPC: the restore path), or the rename that makes
	// the backup (EBUSY, a bind-mounted file; EXDEV; EACCES): an implementation that falls back
	// to something else when the backup cannot be made is killed inside that fallback.
	type injSpec struct {
		name string
		inj  Inject
		fire string
	}
	specs := []injSpec{
		{"write-fails", Inject{Kind: "write", PathRe: "^[^<]", Nth: 0, Times: -1, Errno: 28}, "write:no space left on device"},
		{"rename-busy", Inject{Kind: "rename", PathRe: ".", Nth: 0, Times: -1, Errno: 16}, "rename:device or resource busy"},
		{"rename-exdev", Inject{Kind: "rename", PathRe: ".", Nth: 0, Times: -1, Errno: 18}, "rename:invalid cross-device link"},
		{"rename-eacces", Inject{Kind: "rename", PathRe: ".", Nth: 0, Times: -1, Errno: 13}, "rename:permission denied"},
	}
	pick := tape.Draw(4 * len(specs))
	for si, spec := range specs {
		if !sawRename {
			break
		}
		if os.Getenv("VERIF_TIER") != "thorough" && pick != si {
			continue // quick: one scenario in four, one of the injections
		}
		spec := spec
		inj := []*Inject{{Kind: spec.inj.Kind, PathRe: spec.inj.PathRe, Nth: 0, Times: -1, Errno: spec.inj.Errno}}
		if err := fresh(); err != nil {
			out.Infra = "materialise: " + err.Error()
			return out
		}
		p := plan()
		p.Inject = inj
		ef, err := r.Run(work, c.Inv, p)
		if err != nil {
			out.Infra = err.Error()
			return out
		}
		if ef.Res != nil && ef.Res.Fired[spec.fire] > 0 {
			out.stat("scenarios_with_"+spec.name+"_enumerated", 1)
			K2 := len(ef.Trace)
			for k := 1; k <= K2; k++ {
				if !Mutating(ef.Trace[k-1].Kind) && ef.Trace[k-1].Err == "" {
					continue
				}
				if err := fresh(); err != nil {
					out.Infra = "materialise: " + err.Error()
					return out
				}
				p := plan()
				p.Inject = inj
				at := spec.name + ",after-" + ef.Trace[k-1].Kind
				if k < K2 {
					p.CrashAt = k
				} else {
					at = spec.name + ",end"
				}
				co, err := r.Run(work, c.Inv, p)
				if err != nil {
					out.Infra = err.Error()
					return out
				}
				images++
				out.stat("fault_sigkill_while_"+spec.name, 1)
				if v := judgeCrashImage(c, ex, root, at); v != nil {
					v.Detail += fmt.Sprintf(" [every %s fails with %s; killed before operation %d of %d; last operations: %s; args=%v; tree=%s]", spec.inj.Kind, syscall.Errno(spec.inj.Errno), k, K2, lastOps(ef.Trace, k, 6), c.Inv.Args(), DescribeTree(c.Tree))
					out.V = v
					return out
				} else if k < K2 && !co.Killed {
					out.Infra = fmt.Sprintf("restore-path crash point %d of %d was not reached (schedule not reproduced)", k, K2)
					return out
				}
			}
		}
	}
	// Third enumeration, only for a tree that installs a signal handler outside --watch (the
	// pinned tree does not): "killed" also means the catchable kind. SIGTERM arrives before
	// every operation that follows a mutating one; the process is not stopped but runs its
	// handler against whatever the workers have in flight, and the disk it leaves behind is
	// judged by the same disjunction.
	if ff.Res.Fired["signal-handler-registered"] > 0 {
		out.stat("scenarios_with_signal_handler_enumerated", 1)
		for k := 1; k < K; k++ {
			if !Mutating(ff.Trace[k-1].Kind) {
				continue
			}
			if err := fresh(); err != nil {
				out.Infra = "materialise: " + err.Error()
				return out
			}
			p := plan()
			p.SoftKill, p.SoftKillAt = true, k
			if _, err := r.Run(work, c.Inv, p); err != nil {
				out.Infra = err.Error()
				return out
			}
			images++
			out.stat("fault_sigterm_with_handler", 1)
			if v := judgeCrashImage(c, ex, root, "sigterm,after-"+ff.Trace[k-1].Kind); v != nil {
				v.Detail += fmt.Sprintf(" [SIGTERM delivered to the program's handler before operation %d of %d; last operations: %s; args=%v; tree=%s]", k, K, lastOps(ff.Trace, k, 6), c.Inv.Args(), DescribeTree(c.Tree))
				out.V = v
				return out
			}
		}
	}
	out.Evals = images + 1
	out.Nontrivial = images
	out.Key = uint64(ff.Res.SchedHash)
	out.stat("crash_images_examined", int64(images))
	return out
}

func lastOps(tr []TraceOp, k, n int) string {
	var s []string
	for i := max(0, k-n); i < k && i < len(tr); i++ {
		s = append(s, tr[i].Op)
	}
	return strings.Join(s, " | ")
}

// TraceOf runs the scenario drawn from tape once, fault-free, with the given GOMAXPROCS and
// returns its operation trace as text (simulator self-test).
func TraceOf(r *Runner, base string, tape *sim.Tape, procs int) (string, error) {
	c := GenCase(tape, false)
	sched, stick := drawSchedule(tape)
	work, err := NewWork(base)
	if err != nil {
		return "", err
	}
	defer os.RemoveAll(work)
	if err := c.Tree.Materialise(filepath.Join(work, "root")); err != nil {
		return "", err
	}
	r2 := &Runner{Bin: r.Bin, Procs: procs}
	co, err := r2.Run(work, c.Inv, &Plan{Tape: sched, Stick: stick, CrashAt: -1, TornAt: -1})
	if err != nil {
		return "", err
	}
	var sb strings.Builder
	for _, op := range co.Trace {
		fmt.Fprintf(&sb, "%d %s %d %s\n", op.Seq, op.Op, op.N, op.Err)
	}
	// the scratch directory differs from process to process; absolute names below it do not
	return strings.ReplaceAll(sb.String(), filepath.Join(work, "root"), "@ROOT@"), nil
}
