package clisim

import (
	"bytes"
	"fmt"
	"net/url"
	"path/filepath"
	"regexp"
	"sort"
	"strings"

	"github.com/tdewolff/minify/v2"
	"github.com/tdewolff/minify/v2/css"
	"github.com/tdewolff/minify/v2/html"
	"github.com/tdewolff/minify/v2/js"
	"github.com/tdewolff/minify/v2/json"
	"github.com/tdewolff/minify/v2/svg"
	"github.com/tdewolff/minify/v2/xml"
)

// The model is written from cmd/minify/README.md and the property text; file contents
// come from library calls of the tree under test ("exactly the bytes the library produces
// for that file's type").

// ExtTypes is the documented default extension mapping (README "Types" / `minify --list`).
var ExtTypes = map[string]string{
	"asp": "text/asp", "css": "text/css", "ejs": "text/x-ejs-template", "gohtml": "text/x-go-template",
	"handlebars": "text/x-handlebars-template", "htm": "text/html", "html": "text/html",
	"js": "application/javascript", "json": "application/json", "mjs": "application/javascript",
	"mustache": "text/x-mustache-template", "php": "application/x-httpd-php", "rss": "application/rss+xml",
	"svg": "image/svg+xml", "tmpl": "text/x-go-template", "webmanifest": "application/manifest+json",
	"xhtml": "application/xhtml-xml", "xml": "text/xml",
}

// Inv is a structured invocation of the command.
type Inv struct {
	Inputs    []string
	Output    string // "" = stdout
	Recursive bool
	All       bool // -a
	Bundle    bool
	Sync      bool
	Quiet     bool
	Verbose   int
	Type      string
	Match     []string
	Filters   []Filter // --include / --exclude in order
	Ext       map[string]string
	Preserve  string // "" default, else value of -p
	Stdin     []byte // non-nil: input from stdin
	// minifier options
	HTMLKeepComments, HTMLKeepEndTags, HTMLKeepQuotes, HTMLKeepWhitespace bool
	JSKeepVarNames                                                        bool
	CSSPrecision, SVGPrecision, JSONPrecision                             int
	XMLKeepWhitespace, JSONKeepNumbers                                    bool
	// the remaining documented minifier flags
	HTMLKeepSpecialComments, HTMLKeepDefaultAttrVals, HTMLKeepDocumentTags bool
	SVGKeepComments                                                        bool
	JSPrecision, JSVersion                                                 int
	URL                                                                    string // --url
	UseMime                                                                bool   // spell --type as the deprecated --mime
	// CPUs > 0: the process is confined to that many CPUs (affinity set before exec), which is
	// what runtime.NumCPU() reports and what the command sizes its worker pool by (min 4).
	CPUs int
	// Prepopulated counts destinations the generator created before the run (statistics)
	Prepopulated int
	// AbsInputs: the inputs are given by absolute paths ("@ROOT@/...")
	AbsInputs bool
	// Chroot: the run sees the scenario root as "/" (see verifos.Plan.Chroot)
	Chroot bool
	// Blockers are regular files the generator put where the run needs a directory: the
	// destinations below them cannot be written
	Blockers  []string
	StaleBaks int
}

type Filter struct {
	Include bool
	Pat     string
}

// Args renders the command line.
func (iv *Inv) Args() []string {
	var a []string
	if iv.Recursive {
		a = append(a, "-r")
	}
	if iv.All {
		a = append(a, "-a")
	}
	if iv.Bundle {
		a = append(a, "-b")
	}
	if iv.Sync {
		a = append(a, "-s")
	}
	if iv.Quiet {
		a = append(a, "-q")
	}
	for i := 0; i < iv.Verbose; i++ {
		a = append(a, "-v")
	}
	if iv.Type != "" {
		if iv.UseMime {
			a = append(a, "--mime="+iv.Type)
		} else {
			a = append(a, "--type="+iv.Type)
		}
	}
	if iv.URL != "" {
		a = append(a, "--url="+iv.URL)
	}
	if iv.Preserve != "" {
		a = append(a, "--preserve="+iv.Preserve)
	}
	for _, m := range iv.Match {
		a = append(a, "--match="+m)
	}
	for _, f := range iv.Filters {
		if f.Include {
			a = append(a, "--include="+f.Pat)
		} else {
			a = append(a, "--exclude="+f.Pat)
		}
	}
	exts := make([]string, 0, len(iv.Ext))
	for e := range iv.Ext {
		exts = append(exts, e)
	}
	sort.Strings(exts)
	for _, e := range exts {
		a = append(a, "--ext."+e+"="+iv.Ext[e])
	}
	flag := func(on bool, name string) {
		if on {
			a = append(a, name)
		}
	}
	flag(iv.HTMLKeepComments, "--html-keep-comments")
	flag(iv.HTMLKeepEndTags, "--html-keep-end-tags")
	flag(iv.HTMLKeepQuotes, "--html-keep-quotes")
	flag(iv.HTMLKeepWhitespace, "--html-keep-whitespace")
	flag(iv.JSKeepVarNames, "--js-keep-var-names")
	flag(iv.XMLKeepWhitespace, "--xml-keep-whitespace")
	flag(iv.JSONKeepNumbers, "--json-keep-numbers")
	flag(iv.HTMLKeepSpecialComments, "--html-keep-special-comments")
	flag(iv.HTMLKeepDefaultAttrVals, "--html-keep-default-attrvals")
	flag(iv.HTMLKeepDocumentTags, "--html-keep-document-tags")
	flag(iv.SVGKeepComments, "--svg-keep-comments")
	if iv.JSPrecision != 0 {
		a = append(a, fmt.Sprintf("--js-precision=%d", iv.JSPrecision))
	}
	if iv.JSVersion != 0 {
		a = append(a, fmt.Sprintf("--js-version=%d", iv.JSVersion))
	}
	if iv.CSSPrecision != 0 {
		a = append(a, fmt.Sprintf("--css-precision=%d", iv.CSSPrecision))
	}
	if iv.SVGPrecision != 0 {
		a = append(a, fmt.Sprintf("--svg-precision=%d", iv.SVGPrecision))
	}
	if iv.JSONPrecision != 0 {
		a = append(a, fmt.Sprintf("--json-precision=%d", iv.JSONPrecision))
	}
	if iv.Output != "" {
		a = append(a, "-o", iv.Output)
	}
	if len(iv.Inputs) > 0 {
		a = append(a, "--")
		a = append(a, iv.Inputs...)
	}
	return a
}

// registry builds the library registry the documented way for the invocation's options.
func (iv *Inv) registry() *minify.M {
	m := minify.New()
	// the site URL is set on the registry whether or not --url is given (an empty URL, not nil)
	m.URL, _ = url.Parse(iv.URL)
	h := &html.Minifier{KeepComments: iv.HTMLKeepComments, KeepEndTags: iv.HTMLKeepEndTags, KeepQuotes: iv.HTMLKeepQuotes, KeepWhitespace: iv.HTMLKeepWhitespace,
		KeepSpecialComments: iv.HTMLKeepSpecialComments, KeepDefaultAttrVals: iv.HTMLKeepDefaultAttrVals, KeepDocumentTags: iv.HTMLKeepDocumentTags}
	m.Add("text/css", &css.Minifier{Precision: iv.CSSPrecision})
	m.Add("text/html", h)
	m.Add("image/svg+xml", &svg.Minifier{Precision: iv.SVGPrecision, KeepComments: iv.SVGKeepComments})
	m.AddRegexp(regexp.MustCompile("^(application|text)/(x-)?(java|ecma|j|live)script(1\\.[0-5])?$|^module$"), &js.Minifier{KeepVarNames: iv.JSKeepVarNames, Precision: iv.JSPrecision, Version: iv.JSVersion})
	m.AddRegexp(regexp.MustCompile("[/+]json$"), &json.Minifier{Precision: iv.JSONPrecision, KeepNumbers: iv.JSONKeepNumbers})
	m.AddRegexp(regexp.MustCompile("[/+]xml$"), &xml.Minifier{KeepWhitespace: iv.XMLKeepWhitespace})
	tm := func(a, b string) *html.Minifier {
		c := *h
		c.TemplateDelims = [2]string{a, b}
		return &c
	}
	m.Add("text/asp", tm("<%", "%>"))
	m.Add("text/x-ejs-template", tm("<%", "%>"))
	m.Add("application/x-httpd-php", tm("<?", "?>"))
	m.Add("text/x-go-template", tm("{{", "}}"))
	m.Add("text/x-mustache-template", tm("{{", "}}"))
	m.Add("text/x-handlebars-template", tm("{{", "}}"))
	return m
}

func (iv *Inv) extMap() map[string]string {
	em := map[string]string{}
	for k, v := range ExtTypes {
		em[k] = v
	}
	for e, t := range iv.Ext {
		if mt, ok := ExtTypes[t]; ok {
			t = mt
		}
		em[e] = t
	}
	return em
}

func (iv *Inv) typeOf(path string) (string, bool) {
	if iv.Type != "" {
		if !strings.Contains(iv.Type, "/") {
			t, ok := iv.extMap()[iv.Type]
			return t, ok
		}
		return iv.Type, true
	}
	ext := strings.TrimPrefix(filepath.Ext(path), ".")
	t, ok := iv.extMap()[ext]
	return t, ok
}

// globRe is the documented pattern language: glob (*, **, ?) unless prefixed by ~ (regexp).
func globRe(p string) *regexp.Regexp {
	if strings.HasPrefix(p, "~") {
		return regexp.MustCompile(p[1:])
	}
	p = strings.TrimPrefix(p, `\`)
	var b strings.Builder
	b.WriteString("^")
	for i := 0; i < len(p); i++ {
		switch {
		case strings.HasPrefix(p[i:], "**"):
			b.WriteString(".*")
			i++
		case p[i] == '*':
			b.WriteString("[^/]*")
		case p[i] == '?':
			b.WriteString("[^/]?")
		default:
			b.WriteString(regexp.QuoteMeta(string(p[i])))
		}
	}
	b.WriteString("$")
	return regexp.MustCompile(b.String())
}

// passes: --match on the base name, then --include/--exclude on the full path in order.
func (iv *Inv) passes(path string) bool {
	if len(iv.Match) > 0 {
		ok := false
		for _, m := range iv.Match {
			if globRe(m).MatchString(filepath.Base(path)) {
				ok = true
			}
		}
		if !ok {
			return false
		}
	}
	sel := true
	for _, f := range iv.Filters {
		if globRe(f.Pat).MatchString(path) {
			sel = f.Include
		}
	}
	return sel
}

// Job is one expected unit of work.
type Job struct {
	Srcs   []string // scenario-relative source paths (as the CLI names them)
	Dst    string   // "" = stdout
	Copy   bool     // sync: copied verbatim
	Type   string
	Want   []byte // expected destination content
	Failed bool   // the library rejects the input: destination gets the original bytes
	// Blocked: a regular file sits where a parent directory of Dst would have to be; the
	// destination cannot exist after the run and the file in the way is not to be touched
	Blocked bool
}

// blockedBy reports whether path p lies below (or is) one of the blocker files.
func (iv *Inv) blockedBy(p string) bool {
	p = filepath.Clean(p)
	for _, b := range iv.Blockers {
		if p == b || strings.HasPrefix(p, b+"/") {
			return true
		}
	}
	return false
}

// Expectation is the model's prediction for an invocation on a tree.
type Expectation struct {
	Rejected bool // the invocation is refused as a whole: nothing is written
	Reason   string
	Jobs     []Job
	ExitNZ   bool
	Unsure   string // non-empty: the documentation does not pin this shape; not judged
	DirDst   bool   // the output argument denotes a directory
	// UnsureFinal: only the final state of a complete run is not pinned (C19 does not judge
	// it); the crash disjunction of C20 still applies
	UnsureFinal string
}

// resolve follows symlinks inside the tree model; returns the entry that holds the data.
func (t *Tree) resolve(p string, depth int) (*Entry, string) {
	p = filepath.Clean(p)
	e := t.Lookup(p)
	if e == nil {
		// a parent may be a symlink to a directory
		dir, base := filepath.Split(p)
		dir = strings.TrimSuffix(dir, "/")
		if dir != "" && dir != "." && depth < 8 {
			if de, real := t.resolve(dir, depth+1); de != nil && de.Kind == KDir {
				return t.resolve(filepath.Join(real, base), depth+1)
			}
		}
		return nil, p
	}
	switch e.Kind {
	case KSymlink:
		if depth > 8 {
			return nil, p
		}
		tgt := e.Target
		if !filepath.IsAbs(tgt) {
			tgt = filepath.Join(filepath.Dir(p), tgt)
		}
		return t.resolve(tgt, depth+1)
	case KHardlink:
		if depth > 8 {
			return nil, p
		}
		return t.resolve(e.Target, depth+1)
	}
	return e, p
}

// children lists the direct children names of directory dir (real path), sorted.
func (t *Tree) children(dir string) []string {
	seen := map[string]bool{}
	var out []string
	prefix := dir + "/"
	if dir == "." || dir == "" {
		prefix = ""
	}
	for _, e := range t.Entries {
		if !strings.HasPrefix(e.Path, prefix) || e.Path == dir {
			continue
		}
		rest := e.Path[len(prefix):]
		name := rest
		if i := strings.IndexByte(rest, '/'); i >= 0 {
			name = rest[:i]
		}
		if name != "" && !seen[name] {
			seen[name] = true
			out = append(out, name)
		}
	}
	sort.Strings(out)
	return out
}

type selFile struct {
	path string // as the CLI names it (through the input path)
	root string
	data []byte
	sel  bool // selected for minification (else copied in sync mode)
}

// walk lists the regular files below directory `as` (CLI name) in WalkDir order.
func (iv *Inv) walk(t *Tree, as, root string, out *[]selFile, depth int) {
	de, real := t.resolve(as, 0)
	if de == nil || de.Kind != KDir || depth > 64 {
		return
	}
	for _, name := range t.children(real) {
		if !iv.All && strings.HasPrefix(name, ".") {
			continue
		}
		p := filepath.Join(as, name)
		e, _ := t.resolve(p, 0)
		if e == nil {
			continue
		}
		if e.Kind == KDir {
			iv.walk(t, p, root, out, depth+1)
			continue
		}
		_, known := iv.typeOf(p)
		sel := iv.passes(p) && known
		if sel || iv.Sync {
			*out = append(*out, selFile{p, root, e.Data, sel})
		}
	}
}

// ArgsFor renders the command line for a scenario materialised at root ("@ROOT@" in an
// argument stands for the absolute path of the scenario root).
func (iv *Inv) ArgsFor(root string) []string {
	a := iv.Args()
	for i := range a {
		a[i] = strings.ReplaceAll(a[i], "@ROOT@", root)
	}
	return a
}

// relOutput is the output argument relative to the scenario root.
func (iv *Inv) relOutput() string {
	if strings.HasPrefix(iv.Output, "@ROOT@/") {
		o := strings.TrimPrefix(iv.Output, "@ROOT@/")
		if o == "" {
			return "./"
		}
		return o
	}
	return iv.Output
}

// Expect computes the model's prediction.
func (iv *Inv) Expect(t *Tree) *Expectation {
	iv2 := *iv
	iv2.Output = iv.relOutput()
	// README: "-" as the output is stdout; "-" as the only input is stdin
	if len(iv2.Inputs) == 1 && iv2.Inputs[0] == "-" {
		iv2.Inputs = nil
	} else if iv2.Output == "-" {
		iv2.Output = ""
	}
	// an input given by its absolute path names the same file or directory, and (README:
	// the output mirrors the input from its last path element on) maps to the same
	// destination as the relative spelling
	iv2.Inputs = append([]string(nil), iv2.Inputs...)
	for i, in := range iv2.Inputs {
		if strings.HasPrefix(in, "@ROOT@/") && len(in) > len("@ROOT@/") {
			iv2.Inputs[i] = strings.TrimPrefix(in, "@ROOT@/")
		}
	}
	ex := iv2.expect(t)
	if len(iv.Blockers) > 0 && !ex.Rejected {
		for i := range ex.Jobs {
			if ex.Jobs[i].Dst != "" && iv.blockedBy(ex.Jobs[i].Dst) {
				ex.Jobs[i].Blocked = true
				ex.ExitNZ = true // a selected file could not be written
			}
		}
	}
	return ex
}

func (iv *Inv) expect(t *Tree) *Expectation {
	ex := &Expectation{}
	m := iv.registry()
	minifyOne := func(mt string, data []byte) ([]byte, bool) {
		var w bytes.Buffer
		if err := m.Minify(mt, &w, bytes.NewReader(data)); err != nil {
			return append([]byte(nil), data...), true
		}
		return w.Bytes(), false
	}
	if iv.Stdin != nil && iv.Preserve != "" {
		ex.Rejected, ex.Reason, ex.ExitNZ = true, "--preserve cannot be used with stdin or stdout", true
		return ex
	}
	if iv.Stdin != nil {
		mt, ok := iv.typeOf("")
		if iv.Type == "" || !ok {
			ex.Rejected, ex.Reason, ex.ExitNZ = true, "stdin needs --type", true
			return ex
		}
		want, failed := minifyOne(mt, iv.Stdin)
		ex.Jobs = []Job{{Dst: iv.Output, Type: mt, Want: want, Failed: failed}}
		ex.ExitNZ = failed
		return ex
	}
	if iv.Preserve != "" && (iv.Stdin != nil || iv.Output == "") {
		ex.Rejected, ex.Reason, ex.ExitNZ = true, "--preserve cannot be used with stdin or stdout", true
		return ex
	}
	dirDst := iv.Output != "" && (strings.HasSuffix(iv.Output, "/") || (!iv.Bundle && len(iv.Inputs) > 1))
	if iv.Output != "" && !iv.Bundle && len(iv.Inputs) == 1 {
		if e, _ := t.resolve(iv.Inputs[0], 0); e != nil && e.Kind == KDir {
			if le := t.Lookup(filepath.Clean(iv.Inputs[0])); le != nil && le.Kind == KSymlink {
				ex.Unsure = "single input is a symlink to a directory"
			}
			dirDst = true
		}
	}
	ex.DirDst = dirDst
	if iv.Output == "" && !iv.Bundle && len(iv.Inputs) > 1 {
		ex.Rejected, ex.Reason, ex.ExitNZ = true, "several inputs to stdout need --bundle", true
		return ex
	}
	if iv.Output == "" && iv.Recursive && !iv.Bundle {
		ex.Rejected, ex.Reason, ex.ExitNZ = true, "--recursive to stdout needs --bundle", true
		return ex
	}
	if iv.Output == "" && iv.Sync {
		ex.Rejected, ex.Reason, ex.ExitNZ = true, "--sync needs an output", true
		return ex
	}
	if iv.Sync && iv.Type != "" {
		ex.Rejected, ex.Reason, ex.ExitNZ = true, "--sync and --type exclude each other", true
		return ex
	}
	if dirDst && iv.Bundle {
		ex.Rejected, ex.Reason, ex.ExitNZ = true, "--bundle needs a file or stdout", true
		return ex
	}
	var files []selFile
	for _, in := range iv.Inputs {
		clean := filepath.Clean(in)
		root := filepath.Dir(clean)
		if strings.HasSuffix(in, "/") || strings.HasSuffix(in, "/.") || in == "." {
			// README: "Both `src/` and `src/.` are equivalent"
			root = clean
		}
		e, _ := t.resolve(clean, 0)
		if e == nil {
			ex.Rejected, ex.Reason, ex.ExitNZ = true, "input does not exist", true
			return ex
		}
		if e.Kind == KDir {
			if !iv.Recursive {
				continue // omitted with a warning
			}
			iv.walk(t, clean, root, &files, 0)
			continue
		}
		sel := iv.passes(clean)
		_, known := iv.typeOf(clean)
		if (sel || iv.Sync) && !known && !iv.Sync {
			ex.Rejected, ex.Reason, ex.ExitNZ = true, "cannot infer type of "+clean, true
			return ex
		}
		if sel && !known {
			sel = false
		}
		if sel || iv.Sync {
			files = append(files, selFile{clean, root, e.Data, sel})
		}
	}
	dstOf := func(f selFile) string {
		if !dirDst {
			return filepath.Clean(iv.Output)
		}
		rel, _ := filepath.Rel(f.root, f.path)
		return filepath.Join(iv.Output, rel)
	}
	if iv.Bundle {
		if len(files) == 0 {
			return ex
		}
		var srcs []string
		var cat []byte
		mt := ""
		for i, f := range files {
			ft, _ := iv.typeOf(f.path)
			if mt == "" {
				mt = ft
			} else if ft != mt {
				// documented as refused: nothing may be written
				ex.Jobs, ex.ExitNZ = nil, true
				ex.Rejected, ex.Reason = true, "bundle of different types"
				return ex
			}
			if i > 0 && ft == "application/javascript" {
				cat = append(cat, ";\n"...)
			}
			cat = append(cat, f.data...)
			srcs = append(srcs, f.path)
		}
		want, failed := minifyOne(mt, cat)
		dst := ""
		if iv.Output != "" {
			dst = filepath.Clean(iv.Output)
		}
		ex.Jobs = []Job{{Srcs: srcs, Dst: dst, Type: mt, Want: want, Failed: failed}}
		ex.ExitNZ = failed
		return ex
	}
	if iv.Output == "" && len(files) > 1 {
		ex.Unsure = "several files selected with stdout destination"
	}
	for _, f := range files {
		// Whatever sibling name an implementation derives from the file's own name (a backup, a
		// temporary) needs some room below the 255-byte limit of a file name; how much is the
		// implementation's business, not the README's. Names within 32 bytes of the limit are
		// therefore not judged for their final state (C20 still judges that nothing is lost).
		if len(filepath.Base(f.path)) > 255-32 && iv.Output != "" {
			ex.UnsureFinal = "file name too long for a derived sibling name: " + filepath.Base(f.path)[:16] + "…"
		}
	}
	seenDst := map[string]bool{}
	for _, f := range files {
		j := Job{Srcs: []string{f.path}, Copy: !f.sel}
		if iv.Output != "" {
			j.Dst = dstOf(f)
		}
		if seenDst[j.Dst] && j.Dst != "" {
			ex.Unsure = "two files map to the same destination " + j.Dst
		}
		seenDst[j.Dst] = true
		if f.sel {
			j.Type, _ = iv.typeOf(f.path)
			j.Want, j.Failed = minifyOne(j.Type, f.data)
			if j.Failed {
				ex.ExitNZ = true
			}
		} else {
			j.Want = append([]byte(nil), f.data...)
		}
		ex.Jobs = append(ex.Jobs, j)
	}
	return ex
}
