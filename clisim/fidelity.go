package clisim

import (
	"bytes"
	"fmt"
	"os"
	"os/exec"
	"path/filepath"
	"regexp"
	"strings"

	"verif/sim"
)

// Fidelity cross-check (DESIGN §2.4): for a sequential scenario the UNMODIFIED command,
// built with the repository's own toolchain, is run under strace; the sequence of its
// mutating file-system system calls on the scenario root must equal the sequence of
// mutating operations the os facade recorded for the instrumented binary on the same
// scenario. A difference means an access bypasses the seam (or the facade misreports one):
// infrastructure trouble, never a violation.

var (
	reSyscall = regexp.MustCompile(`^(?:\[pid\s+\d+\]\s+|\d+\s+)?(\w+)\((.*)\)\s+=\s+(-?\d+)(?:<([^>]*)>)?`)
	reStr     = regexp.MustCompile(`"((?:[^"\\]|\\.)*)"`)
	reFdPath  = regexp.MustCompile(`^(\d+)<([^>]*)>`)
)

// normOp is one entry of the common alphabet.
func normFromFacade(root string, tr []TraceOp) []string {
	var out []string
	clean := func(p string) string {
		if filepath.IsAbs(p) {
			if r, err := filepath.Rel(root, filepath.Clean(p)); err == nil {
				return r
			}
		}
		return filepath.Clean(p)
	}
	for _, op := range tr {
		if op.Err != "" {
			continue
		}
		p := clean(op.Path)
		switch op.Kind {
		case "rename":
			parts := strings.SplitN(op.Path, " -> ", 2)
			if len(parts) == 2 {
				out = append(out, "rename "+clean(parts[0])+" "+clean(parts[1]))
			}
		case "opentrunc", "openw":
			out = append(out, "openw "+p)
		case "remove":
			out = append(out, "remove "+p)
		case "write":
			if op.Path == "<stdout>" || op.Path == "<stderr>" || op.N == 0 {
				continue
			}
			if n := len(out); n > 0 && out[n-1] == "write "+p {
				continue // consecutive writes to one file are one transfer
			}
			out = append(out, "write "+p)
		case "chmod", "chown", "chtimes", "symlink":
			if op.Kind == "symlink" {
				parts := strings.SplitN(op.Path, " -> ", 2)
				if len(parts) == 2 {
					p = clean(parts[1])
				}
			}
			out = append(out, op.Kind+" "+p)
		}
	}
	return out
}

// unescape undoes strace's C-style escaping of strings and descriptor paths (\ooo octal
// for non-ASCII bytes, \" \\ \n \t …).
func unescape(s string) string {
	if !strings.Contains(s, "\\") {
		return s
	}
	var b []byte
	for i := 0; i < len(s); i++ {
		c := s[i]
		if c != '\\' || i+1 >= len(s) {
			b = append(b, c)
			continue
		}
		i++
		switch s[i] {
		case 'n':
			b = append(b, '\n')
		case 't':
			b = append(b, '\t')
		case 'r':
			b = append(b, '\r')
		case 'v':
			b = append(b, '\v')
		case 'f':
			b = append(b, '\f')
		case '0', '1', '2', '3', '4', '5', '6', '7':
			v, n := 0, 0
			for n < 3 && i < len(s) && s[i] >= '0' && s[i] <= '7' {
				v = v*8 + int(s[i]-'0')
				i++
				n++
			}
			i--
			b = append(b, byte(v))
		default:
			b = append(b, s[i])
		}
	}
	return string(b)
}

func rel(root, p string) (string, bool) {
	p = unescape(p)
	if !filepath.IsAbs(p) {
		p = filepath.Join(root, p)
	}
	r, err := filepath.Rel(root, filepath.Clean(p))
	if err != nil || strings.HasPrefix(r, "..") {
		return "", false
	}
	return r, true
}

// joinUnfinished merges strace's "<unfinished ...>" / "<... name resumed>" pairs (another
// thread entered a traced call in between) into single lines, at the position of the
// resumption, which is when the call completed.
func joinUnfinished(log string) []string {
	pending := map[string]string{}
	var out []string
	for _, line := range strings.Split(log, "\n") {
		pid, rest, ok := strings.Cut(strings.TrimLeft(line, " "), " ")
		if !ok {
			continue
		}
		rest = strings.TrimLeft(rest, " ")
		if strings.HasSuffix(rest, "<unfinished ...>") {
			pending[pid] = strings.TrimSuffix(rest, "<unfinished ...>")
			continue
		}
		if strings.HasPrefix(rest, "<... ") {
			if i := strings.Index(rest, " resumed>"); i >= 0 {
				rest = pending[pid] + rest[i+len(" resumed>"):]
				delete(pending, pid)
			}
		}
		out = append(out, pid+"  "+rest)
	}
	return out
}

func normFromStrace(root string, log []byte) []string {
	var out []string
	for _, line := range joinUnfinished(string(log)) {
		m := reSyscall.FindStringSubmatch(line)
		if m == nil {
			continue
		}
		name, args, ret := m[1], m[2], m[3]
		if strings.HasPrefix(ret, "-") {
			continue
		}
		strs := reStr.FindAllStringSubmatch(args, -1)
		first := func(i int) string {
			if i < len(strs) {
				return strs[i][1]
			}
			return ""
		}
		switch name {
		case "renameat", "renameat2", "rename":
			a, ok1 := rel(root, first(0))
			b, ok2 := rel(root, first(1))
			if ok1 && ok2 {
				out = append(out, "rename "+a+" "+b)
			}
		case "openat", "open":
			if strings.Contains(args, "O_WRONLY") || strings.Contains(args, "O_RDWR") {
				if p, ok := rel(root, first(0)); ok {
					out = append(out, "openw "+p)
				}
			}
		case "unlinkat", "unlink", "rmdir":
			if p, ok := rel(root, first(0)); ok {
				out = append(out, "remove "+p)
			}
		case "write", "pwrite64", "copy_file_range", "sendfile":
			// the destination descriptor with its path (strace -y)
			dst := args
			if name == "copy_file_range" {
				// copy_file_range(in<…>, NULL, out<…>, …)
				parts := strings.Split(args, ", ")
				if len(parts) >= 3 {
					dst = parts[2]
				}
			}
			if fm := reFdPath.FindStringSubmatch(strings.TrimSpace(dst)); fm != nil {
				if ret == "0" || !filepath.IsAbs(fm[2]) {
					continue // empty transfer, or a pipe/socket (stdout, stderr)
				}
				if p, ok := rel(root, fm[2]); ok {
					if n := len(out); n > 0 && out[n-1] == "write "+p {
						continue
					}
					out = append(out, "write "+p)
				}
			}
		case "fchmodat", "chmod":
			if p, ok := rel(root, first(0)); ok {
				out = append(out, "chmod "+p)
			}
		case "fchownat", "chown", "lchown":
			if p, ok := rel(root, first(0)); ok {
				out = append(out, "chown "+p)
			}
		case "utimensat":
			if p, ok := rel(root, first(0)); ok {
				out = append(out, "chtimes "+p)
			}
		case "symlinkat", "symlink":
			if p, ok := rel(root, first(1)); ok {
				out = append(out, "symlink "+p)
			}
		}
	}
	return out
}

// Fidelity runs one scenario (made sequential with -v) through both binaries and compares.
// It returns "" when the sequences agree, otherwise a description of the first difference.
func Fidelity(r *Runner, realBin, base string, tape *sim.Tape) (diff string, shape string, n int, err error) {
	c := GenCase(tape, false)
	if c.Inv.Verbose == 0 {
		c.Inv.Verbose = 1 // sequential path: the order of the unmodified binary is then defined
	}
	c.Inv.Quiet = false
	shape = c.Shape
	work, err := NewWork(base)
	if err != nil {
		return "", shape, 0, err
	}
	defer os.RemoveAll(work)
	root := filepath.Join(work, "root")
	if err := c.Tree.Materialise(root); err != nil {
		return "", shape, 0, err
	}
	co, err := r.Run(work, c.Inv, &Plan{CrashAt: -1, TornAt: -1})
	if err != nil {
		return "", shape, 0, err
	}
	facRoot := root
	if c.Inv.Chroot {
		facRoot = "/" // the child saw the scenario root as its file-system root
	}
	fac := normFromFacade(facRoot, co.Trace)
	// the unmodified binary on a fresh copy of the tree
	os.RemoveAll(root)
	if err := c.Tree.Materialise(root); err != nil {
		return "", shape, 0, err
	}
	logPath := filepath.Join(work, "strace.log")
	args := append([]string{"-f", "-y", "-s", "256", "-o", logPath, "-e",
		"trace=rename,renameat,renameat2,open,openat,unlink,unlinkat,rmdir,write,pwrite64,copy_file_range,sendfile,chmod,fchmodat,chown,fchownat,lchown,utimensat,symlink,symlinkat",
		realBin}, c.Inv.ArgsFor(root)...)
	cmd := exec.Command("strace", args...)
	cmd.Dir = root
	if c.Inv.Stdin != nil {
		cmd.Stdin = bytes.NewReader(c.Inv.Stdin)
	}
	var sink bytes.Buffer
	cmd.Stdout, cmd.Stderr = &sink, &sink
	cmd.Run() // the exit status of the command is not the point here
	lb, err := os.ReadFile(logPath)
	if err != nil {
		return "", shape, 0, fmt.Errorf("strace left no log: %v (%s)", err, sink.String())
	}
	real := normFromStrace(root, lb)
	for i := 0; i < len(fac) || i < len(real); i++ {
		a, b := "<end>", "<end>"
		if i < len(fac) {
			a = fac[i]
		}
		if i < len(real) {
			b = real[i]
		}
		if a != b {
			return fmt.Sprintf("position %d: facade %q, unmodified binary under strace %q (shape %s, args %v)\nfacade: %v\nstrace: %v", i, a, b, c.Shape, c.Inv.Args(), fac, real), shape, len(fac), nil
		}
	}
	return "", shape, len(fac), nil
}

// BuildReal builds the unmodified command with the repository's default toolchain.
func BuildReal(repo, out string) error {
	cmd := exec.Command("go", "build", "-o", out, "./cmd/minify")
	cmd.Dir = repo
	cmd.Env = append(os.Environ(), "GOFLAGS=-mod=mod", "GOPROXY=off", "GOSUMDB=off", "GOTOOLCHAIN=local")
	if b, err := cmd.CombinedOutput(); err != nil {
		return fmt.Errorf("%v: %s", err, b)
	}
	return nil
}
