package main

import (
	"fmt"
	"os"
	"verif/overlaygen"
)

func main() {
	os.MkdirAll("/tmp/ovscratch", 0o755)
	o, err := overlaygen.CLI("/repo", "/verif", "/tmp/ovscratch")
	if err != nil {
		fmt.Println("ERR", err)
		os.Exit(1)
	}
	o.Write("/tmp/ovscratch/overlay.json")
	fmt.Println(len(o.Replace))
}
