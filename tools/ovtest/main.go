// Command ovtest writes the overlays to a directory for manual experiments:
//   go run ./tools/ovtest <dir>   -> <dir>/overlay.json (cli), <dir>/overlay-lib.json, <dir>/corpus.json
package main

import (
	"fmt"
	"os"
	"path/filepath"

	"verif/corpus"
	"verif/overlaygen"
)

func main() {
	dir := "/tmp/ovscratch"
	if len(os.Args) > 1 {
		dir = os.Args[1]
	}
	os.MkdirAll(dir, 0o755)
	o, err := overlaygen.CLI("/repo", "/verif", dir)
	if err != nil {
		fmt.Println("ERR", err)
		os.Exit(1)
	}
	o.Write(filepath.Join(dir, "overlay.json"))
	l, err := overlaygen.Lib("/repo", "/verif", dir)
	if err != nil {
		fmt.Println("ERR", err)
		os.Exit(1)
	}
	l.Write(filepath.Join(dir, "overlay-lib.json"))
	docs, _ := corpus.Extract("/repo", 16<<10)
	corpus.Save(filepath.Join(dir, "corpus.json"), docs)
	fmt.Println(len(o.Replace), len(l.Replace), len(docs))
}
