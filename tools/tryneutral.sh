#!/bin/bash
# usage: tools/tryneutral.sh <srcdir with patch.diff> <ID> [<ID>...]
# Applies a property-preserving refactoring in a scratch worktree of /repo HEAD, builds it, runs the
# whole existing suite, and runs the quick tier of the named checks against it (VERIF_REPO).
src=$1; shift
export GOFLAGS=-mod=mod GOPROXY=off GOSUMDB=off GOTOOLCHAIN=local
wt=$(mktemp -d /tmp/neutral.XXXXXX); rmdir $wt
git -C /repo worktree add -q --detach $wt HEAD || exit 2
cd $wt
git apply $src/patch.diff || { echo "$src: patch does not apply to HEAD"; cd /; git -C /repo worktree remove --force $wt; exit 1; }
go build ./... >/dev/null 2>&1; build=$?
go test -vet=off -count=1 ./... >$wt.suite.log 2>&1; suite=$?
echo "### $src build=$build suite=$suite"
for id in "$@"; do
  (cd /verif && VERIF_REPO=$wt VERIF_EVIDENCE_DIR=/tmp/neutral-evidence ./verif check $id --tier ${TIER:-quick} 2>&1 | grep -E "^violation|^verif: property=.*cases|INFRA" | head -8 | cut -c1-300)
done
cd /; git -C /repo worktree remove --force $wt; rm -f $wt.suite.log
