#!/bin/bash
# usage: confirm_cli_seed.sh <srcdir> <demo-script> [args...]   (demo reads $MINIFY or takes the binary as $1)
src=$1; demo=$2
export GOFLAGS=-mod=mod GOPROXY=off GOSUMDB=off GOTOOLCHAIN=local
wt=$(mktemp -d /tmp/confirm.XXXXXX); rmdir $wt
git -C /repo worktree add -q --detach $wt HEAD || exit 2
cd $wt
go build -o $wt/minify.bin ./cmd/minify || exit 2
MINIFY=$wt/minify.bin bash $src/demo/$demo $wt/minify.bin >$wt.base.log 2>&1; base=$?
git apply $src/patch.diff || exit 2
go build ./... >/dev/null 2>&1; build=$?
go test -vet=off -count=1 ./... >$wt.suite.log 2>&1; suite=$?
go build -o $wt/minify.bin ./cmd/minify
MINIFY=$wt/minify.bin bash $src/demo/$demo $wt/minify.bin >$wt.mut.log 2>&1; mut=$?
echo "{\"src\":\"$src\",\"demo\":\"$demo\",\"demo_without_change_exit\":$base,\"build_exit\":$build,\"suite_exit\":$suite,\"demo_with_change_exit\":$mut}"
tail -2 $wt.base.log | sed 's/^/   base: /'; tail -2 $wt.mut.log | sed 's/^/   mut:  /'
cd /; git -C /repo worktree remove --force $wt; rm -f $wt.*.log
