#!/usr/bin/env python3
"""Regenerates DESIGN.md §9 (seeded changes and which checks catch them) from /verif/seeded/*/meta.json."""
import json, glob, re
rows=[]
for p in sorted(glob.glob('/verif/seeded/*/meta.json')):
    m=json.load(open(p))
    det=' ; '.join(m.get('detected_by') or ['(not run yet)'])
    rows.append(f"| `{m['id']}` | {m['breaks_property']} | {m['needs_to_manifest']} | {det} |")
sec = """## 9. Seeded changes and which check catches which

Each row is a change to tdewolff/minify written by an independent sub-agent that was given
only the text of one property and its own scratch worktree (nothing from /verif). Every
change compiles, passes the whole existing test suite unedited, and comes with a
demonstration that fails with the change and passes without it; all of that was re-confirmed
here in a fresh worktree before the change was kept (`tools/confirm_seed.sh`,
`tools/confirm_cli_seed.sh`). `tools/trymut.sh <patch> <ID…>` applies a change to /repo, runs
the quick checks with the evidence directory redirected, and reverts. "missed before" marks
the changes that made me strengthen a check.

`tools/reseed.py` re-runs every kept change against the machinery as it is now (a scratch
worktree of /repo HEAD per change, the check named first in its row, quick tier unless the
row says thorough) and then replays the first replay file of each detection twice in fresh
processes, insisting on the same kind@site. The full run after wave 6 (96 changes): 83
detected again; 8 patches no longer apply to HEAD because a later `fix:` commit rewrote the
same lines (they were confirmed at the time against the commit they were written for); 3
blind spots skipped; 2 not detected by the named check any more, for reasons that are
understood: `c10-b` is no defect at HEAD (the repaired `Bytes` hands the original back, so
`String` via `Bytes` is correct), and `c14-w2b` is now seen by C13's race detector only
(§8.3, GOMAXPROCS=1). The replay verification found two defects of the machinery itself
(replay files of race reports named the wrong case; violations that depend on process
history did not reproduce), both corrected (§8.3), after which the ten affected files
reproduce.
A sample run at the end (hour 20, every fourth change, 40 of 160, all generators of waves
7-10 in place, /repo at its final HEAD): 34 detected again by the check named first in their
row, the first replay file of 33 of them reproducing twice with the same kind@site; the
34th is a data race whose replay shows the report in two of three fresh processes (the race
detector evicts shadow cells at random, an assumption listed in evidence/C13.json); 4
patches do not apply to HEAD; 2 blind spots skipped. No detection was lost to the later
generators.

| seeded change | property | needs, to manifest | caught by |
|---|---|---|---|
""" + "\n".join(rows) + "\n"
s=open('/verif/DESIGN.md').read()
i=s.find('## 9. Seeded changes')
if i>=0: s=s[:i]
s=s.rstrip('\n')+"\n\n"+sec
open('/verif/DESIGN.md','w').write(s)
print(len(rows),"rows")

# §10: neutral refactorings
rows=[]
for p in sorted(glob.glob('/verif/neutral/*/meta.json')):
    m=json.load(open(p))
    rows.append(f"| `{m['id']}` | {m['keeps_property']} | {m['what']} | {' '.join(m.get('checks_run_quick',[])) or '-'} | {m['result']} |")
sec10 = """## 10. Property-preserving refactorings (false-alarm resistance)

The opposite experiment: sub-agents, again given only a property text and a scratch worktree,
re-implemented the mechanism behind the property with a different strategy while keeping
every behaviour the statement talks about (and passing the existing suite). The checks must
stay silent on these trees. Three false alarms surfaced this way and were corrected (§8.3:
would-block semantics, schedule-hash mismatch as exit 2, child operation budget); after the
corrections every listed check exits 0 on every refactoring. The patches are kept under
/verif/neutral/ as regression material for the checks themselves.

The whole set was run again after wave 9 (hour 18), against every generator, seam and oracle
added since (quick tier of the property's own check and of one neighbouring check, in a scratch
worktree of /repo HEAD per refactoring): 58 of the 64 patches still apply to HEAD (six touch
lines that a later `fix:` commit rewrote); 54 of them are silent on every check run, the three
that were flagged before are flagged again for the same reasons (they are not neutral for the
property that reports them, see their rows), and the one that cannot be simulated ends with
exit 2 as before. No new false alarm.

| refactoring | property | what changes | quick checks run | result |
|---|---|---|---|---|
""" + "\n".join(rows) + "\n"
s=open('/verif/DESIGN.md').read()
i=s.find('## 10. Property-preserving')
if i>=0: s=s[:i]
s=s.rstrip('\n')+"\n\n"+sec10
open('/verif/DESIGN.md','w').write(s)
print(len(rows),"neutral rows")
