#!/bin/bash
# usage: confirm_generic.sh <srcdir> <commit-ish> '<shell command run in the worktree; $WT = worktree, $SRC = srcdir>'
# Runs the command on the unchanged worktree (must exit 0) and with the patch applied (must exit != 0);
# also builds and runs the whole suite with the patch.
src=$1; rev=$2; cmdline=$3
export GOFLAGS=-mod=mod GOPROXY=off GOSUMDB=off GOTOOLCHAIN=local
wt=$(mktemp -d /tmp/confirm.XXXXXX); rmdir $wt
git -C /repo worktree add -q --detach $wt $rev || exit 2
cd $wt; export WT=$wt SRC=$src
bash -c "$cmdline" >$wt.base.log 2>&1; base=$?
git clean -fdq; git checkout -q -- .
git apply $src/patch.diff || { echo "patch does not apply"; cd /; git -C /repo worktree remove --force $wt; exit 1; }
go build ./... >/dev/null 2>&1; build=$?
go test -vet=off -count=1 ./... >$wt.suite.log 2>&1; suite=$?
bash -c "$cmdline" >$wt.mut.log 2>&1; mut=$?
echo "{\"src\":\"$src\",\"rev\":\"$rev\",\"demo_without_change_exit\":$base,\"build_exit\":$build,\"suite_exit\":$suite,\"demo_with_change_exit\":$mut}"
tail -2 $wt.mut.log | sed 's/^/    /'
cd /; git -C /repo worktree remove --force $wt; rm -f $wt.*.log
