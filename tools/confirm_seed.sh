#!/bin/bash
# usage: confirm_seed.sh <srcdir(/tmp/wtout/cNN/X)> <pkgdir-rel> <demofile> <run-regex> [race]
# Confirms a seeded change in a scratch worktree of /repo HEAD: demo passes without the
# change; with it: builds, passes the whole existing suite, demo fails. Prints a JSON line.
src=$1; pkg=$2; demo=$3; re=$4; race=${5:-}
export GOFLAGS=-mod=mod GOPROXY=off GOSUMDB=off GOTOOLCHAIN=local
wt=$(mktemp -d /tmp/confirm.XXXXXX); rmdir $wt
git -C /repo worktree add -q --detach $wt HEAD || exit 2
cd $wt
cp $src/demo/$demo $pkg/$demo
go test -vet=off -count=1 $race -run "$re" ./$pkg/ >$wt.base.log 2>&1; base=$?
rm $pkg/$demo
git apply $src/patch.diff || { echo "{\"src\":\"$src\",\"error\":\"patch does not apply\"}"; cd /; git -C /repo worktree remove --force $wt; exit 1; }
go build ./... >$wt.build.log 2>&1; build=$?
go test -vet=off -count=1 ./... >$wt.suite.log 2>&1; suite=$?
cp $src/demo/$demo $pkg/$demo
go test -vet=off -count=1 $race -run "$re" ./$pkg/ >$wt.mut.log 2>&1; mut=$?
echo "{\"src\":\"$src\",\"demo_without_change_exit\":$base,\"build_exit\":$build,\"suite_exit\":$suite,\"demo_with_change_exit\":$mut}"
tail -3 $wt.mut.log | sed 's/^/    /'
cd /; git -C /repo worktree remove --force $wt; rm -f $wt.*.log
