#!/usr/bin/env python3
"""Regenerates /verif/MANIFEST.json. The per-property texts live here so that the
manifest stays valid and consistent with DESIGN.md; run after changing a claim."""
import json, sys

NA = {
 "C01": "pure function of the input program (judged by executing two texts in a JS engine): no schedule, clock, fault, I/O or history for a simulator to own; differential/grammar-based testing is a different technique family (DESIGN.md §3 C01)",
 "C02": "pure function of the program's scope structure; no schedule, fault or history (DESIGN.md §3 C02)",
 "C03": "pure function of document and options, oracle is an HTML5 tree builder; the only simulator-relevant aspect (dispatch to embedded minifiers and their failures) is covered under C11 (DESIGN.md §3 C03)",
 "C04": "pure function of the stylesheet; oracle is a value interpreter, nothing to schedule or fault (DESIGN.md §3 C04)",
 "C05": "pure function of the document; the path-data state machine is over the input's commands, not over a schedule or client history (DESIGN.md §3 C05)",
 "C06": "pure function of the document (DESIGN.md §3 C06)",
 "C07": "pure function of the text (DESIGN.md §3 C07)",
 "C08": "pure function over a finite grammar per length; exhaustive enumeration against math/big is the right tool and is a different technique (DESIGN.md §3 C08)",
 "C09": "pure function (minify, independent parse, minify again); no schedule or fault can change either step (DESIGN.md §3 C09)",
 "C16": "pure function of (options, input) inspected by independent parsers; its one schedule-related clause (option structs never mutated) is checked under C13 (DESIGN.md §3 C16)",
 "C17": "static finite tables; exhaustive comparison with reference tables is enumeration, not simulation (DESIGN.md §3 C17)",
 "C18": "pure functions of the input URI / media type string; the registry-dependent part is exercised as a host context of C11 (DESIGN.md §3 C18)",
}

CHECKS = {
 "C14": dict(engine="libsim", level="fault_enumeration", design_ref="DESIGN.md §3 C14",
   technique="deterministic simulation with fault injection: fail-stop reader/writer doubles at every fault position, wrappers under a seeded goroutine scheduler (synctest), tape replay+shrinking",
   text="For every explored document every writer-call position (two variants) and every reader byte position (two variants) is injected through the plain call (strided for long documents; counted), a spread through Writer/ResponseWriter/MiddlewareWithError/Reader/Match under the seeded scheduler and through one level of HTML embedding; the error must surface (errors.Is the injected one; the writer's error value is an opaque one or one of io.EOF, io.ErrUnexpectedEOF, io.ErrShortWrite, io.ErrClosedPipe, a wrapped EOF), no panic, no deadlock, Close returns. One case in 1024 goes through an external-command minifier (AddCmd; stdin or $in file, stdout or $out file; a real process, plain call only), where any non-nil error counts. Enumeration of a finite fault space per input is the natural strength here; inputs are sampled from the tree's own tests/corpora.",
   note="Trusts: Go runtime, testing/synctest quiescence, the SimReader/SimWriter doubles, go build -overlay faithfully replacing only the sync import of minify.go. Fault model fail-stop. Documents come from /repo's test tables, fuzz corpora, benchmarks plus a few built-in hosts."),
}

CHECKS["C12"] = dict(engine="libsim", level="exploration", design_ref="DESIGN.md §3 C12",
   technique="deterministic simulation: seeded scheduler over the real io.Pipe/goroutine wrappers (synctest quiescence), all chunk compositions of short inputs, tape-drawn partitions/pacing for long ones, oracle = plain sequential call",
   text="Every entry point (Bytes, String, Reader, Writer, ResponseWriter, Middleware, MiddlewareWithError, Match, chunked plain call) is run on real code under a seeded scheduler that decides every interleaving of producer writes, minifier goroutine and consumer reads; all 2^(n-1) chunk compositions of the short inputs, random partitions (incl. empty and 1-byte chunks) of corpus documents of all six types plus a streaming and a failing stub minifier; documents with a byte order mark; HTTP requests with and without Range / conditional / Accept-Encoding headers, methods, 1xx early hints; one registry in four has a fallback pattern that serves untyped responses. Bytes and error must equal the plain call; output complete and no later write at the event 'Close returned'; HTTP: no stale Content-Length, status forwarded, minifier chosen by Content-Type else path extension, pass-through when none. Sampling of schedules and long-input partitions, exhaustive only for the short-input compositions.",
   note="Trusts: Go runtime, testing/synctest, the doubles; SimResponseWriter is a stub of net/http that models only header freezing. Reference is computed by the same tree (plain call), so this check cannot see a bug that changes the plain call identically.")

CHECKS["C13"] = dict(engine="libsim", level="exploration", design_ref="DESIGN.md §3 C13",
   technique="deterministic simulation: N client tasks on one registry under a seeded, race-transparent scheduler (synctest quiescence, fake-clock hand-off without happens-before edges) in a -race build; sequential reference; replay and tape shrinking across processes",
   text="2-6 simulated clients issue Minify/Bytes/String/Reader/Writer/Match/ResponseWriter/direct-package calls on ONE registry with shared option structs (values drawn per run), on documents biased to HTML hosts that re-enter the registry; the scheduler decides every interleaving of the yield points and hands over control without creating happens-before edges between tasks, so the Go race detector reports every conflicting unsynchronised pair executed by different tasks even though execution is serial, and the report replays from the tape. Also judged: bytes/error equal the sequential call (results are compared after ALL calls have returned, so aliased result buffers show); no call still waiting for a lock at a quiescent point (the holder is parked inside I/O); shared option structs deep-equal before/after; a reflection digest of all ~3000 package-level variables of the seven packages (incl. spare slice capacity) every 256 cases; equal library output in four fresh processes at GOMAXPROCS 1/4/16/2; a site URL on the registry; occasionally more than 100 calls in flight; two sub-scenarios in a process of their own: Bytes on adjacent sub-slices of one array, AddCmd minifiers called repeatedly from several tasks. Seeded sampling of schedules, not enumeration.",
   note="Trusts: Go race detector (shadow-memory limits apply), testing/synctest, go build -overlay replacing only the sync import of minify.go and adding accessors for package-level variables. Yield points are reader/writer calls and task steps, not every instruction: wrong bytes that need two goroutines inside straight-line minifier code at once are seen as races only. Registration concurrent with use is excluded by the property. Workers restart every 15 s (race runtime leaks a context per synctest bubble).")
CHECKS["C15"] = dict(engine="libsim", level="exploration", design_ref="DESIGN.md §3 C15",
   technique="seeded operation histories (registrations interleaved with queries) against a small executable reference model; tape replay and shrinking; no schedule/fault dimension exists in this property",
   text="Random registration histories over overlapping literal types and patterns (incl. re-registration and external-command minifiers) interleaved with Match/Minify/MinifyMimetype/Bytes/String/Reader queries over media type strings with case, spaces and parameters; every query is compared with a reference model of the documented rules (which stub ran, with which params, ErrNotExist and zero bytes otherwise, Match == what a call uses). Weak by nature: the property has no schedule or fault for a simulator to own; this is the model-based half of the technique only and is claimed as such.",
   note="Trusts: the reference model (written from the doc comments) and its media type grammar; strings outside the grammar are judged only for Match/Minify agreement.")

CHECKS["C20"] = dict(engine="clisim", level="fault_enumeration", design_ref="DESIGN.md §3 C20",
   technique="deterministic simulation with crash injection: the real cmd/minify under an os facade (overlay) with a seeded worker scheduler; SIGKILL before every operation following a mutating FS operation and torn writes, one process per crash image; disk image judged by the property's disjunction",
   text="For each generated scenario (in-place file/dir/bundle, separate output, sync, symlink and hard-link aliases, stdin; all file types, empty, library-rejected and >32KiB files; worker schedule on the tape) a fault-free run of the real command records the FS-operation trace; then the run is repeated on a rebuilt tree and killed (SIGKILL, no deferred code runs) at every boundary after a mutating operation, and every write is torn at three prefix lengths; scenarios that rename are enumerated a second time with every write failing (ENOSPC), so that the kills also land inside the path that restores the .bak copy. Every surviving disk image must satisfy: original at the path, or original in <name>.bak, or complete new output; read-only inputs and bystanders untouched. Complete enumeration of crash points per explored scenario; scenarios are sampled.",
   note="Trusts: the os facade covers every FS access of cmd/minify (an AST scan refuses the build, exit 2, if the package reaches the disk around it; --watch is outside every property), the kernel FS of the scratch tmpfs, testing/synctest. Crash model = process kill, not power loss.")

CHECKS["C19"] = dict(engine="clisim", level="exploration", design_ref="DESIGN.md §3 C19",
   technique="deterministic simulation of the real cmd/minify under os/io facades (overlay): seeded worker schedules, plan-chosen io buffer sizes, errno injection; file system, stdout and exit status compared with an executable model built from library calls",
   text="Generated directory trees and invocation shapes from the README's grammar are run through the real command (worker pool under a seeded scheduler, two schedules per multi-task scenario, io.ReadAll/io.Copy buffer sizes chosen by the plan); afterwards every destination must hold exactly the library's bytes for its type (original bytes when the library rejects the input, verbatim copy in sync mode, minified concatenation with the documented separator for bundles), stdout likewise, exit status non-zero iff a selected file failed, no other path changed, no leftover .bak, refused invocations write nothing. One run in three additionally injects an errno (ENOSPC, EIO, EACCES, EMFILE, EINTR; once, a few times - exercising the retry loops - or permanently) into an operation the command handles (open, truncating open, rename, mkdirall, write, read, close, remove); then only 'no other file modified' and 'inputs not harmed' are judged. Shapes include template file types, failing contents rewritten in place before the error, in-place directories spelled differently, directories with more files than workers plus channel capacity, odd file names, every documented minifier flag plus --url and --mime, -p values, worker pools of 4/6/9/16 (CPU affinity of the child), destinations that exist before the run, files of 4-5 MiB, large files rejected only at their last byte; the injected error lands on one of the first occurrences of an operation or on the last / a random occurrence on one path of the fault-free trace. Sampling of trees, shapes and schedules.",
   note="Trusts: the model of destinations (written from cmd/minify/README.md; shapes it does not pin are not judged), library calls of the same tree for contents, the os/io facades covering every FS access (AST scan, exit 2 otherwise), kernel FS semantics of the scratch tmpfs.")

CHECKS["C10"] = dict(engine="libsim", level="exploration", design_ref="DESIGN.md §3 C10",
   technique="deterministic simulation with fault injection on the stream and collaborator seams: seeded stream faults (truncate, drop/duplicate/swap/splice chunk, flip byte, reader/writer failure) applied to corpus documents through every entry point, wrappers under the seeded scheduler; a simulated clock (overlay-compiled work counters) with scaling probes for the time clause; seeded operation histories on the exported token buffers against a lexer model; crash/hang monitors; tape replay and shrinking",
   text="PARTIAL CLAIM: only the part of C10 that stream faults and failing collaborators reach. Documents from the tree's tests, corpora and benchmarks are delivered cut short, with chunks lost, duplicated (up to 64 times, short ones thousands of times) or swapped, bytes flipped, byte ranges or whole tokens of another document of the same type spliced in, with a reader or writer that starts failing, optionally embedded in an HTML host, through Minify/Bytes/String/Reader/Writer and direct package calls with default and extreme options (all Keep* flags, precisions incl. MaxInt/MinInt). Judged: no panic, the call returns (deadlock detection, step budget, wall-clock watchdog confirmed by solitary replay), output volume bounded, Bytes/String return the caller's data unchanged on error. One case in 16 drives the exported look-ahead buffers (html/svg/xml TokenBuffer) with a seeded Peek(k)/Shift history and compares every returned token with the token list of a second lexer (reference model), k up to 340. Time proportional to the input is decided on SIMULATED time: this build has a work counter in every function entry and loop body of /repo's seven packages and of the parse module (copy/append charged per 8 elements); a document built from a unit repeated r, 4r, 16r times (plain or with numbered identifiers) must not cost more than 10x the ticks per 4x step twice in a row (quadratic work costs 16x); quick samples ~9000 probes, thorough additionally enumerates every unit of up to 4 bytes of every test-table document of up to 64 bytes (214000 probes). Two known findings (JS scope handling, HTML look-ahead / raw text are quadratic on the pinned tree) are listed in known_findings.json and mask new superlinear paths inside those two pipelines only. Not claimed: arbitrary byte strings (fuzzing), memory growth, work hidden in library calls other than copy/append.",
   note="Trusts: Go runtime, testing/synctest, the doubles. The hang watchdog is wall-clock (60 s for cases that take milliseconds) and only reported after a solitary replay hangs again; otherwise exit 2. The work counters are inserted textually (go/parser positions) into a scratch copy; the instrumented source must parse or the build is refused (exit 2).")
CHECKS["C11"] = dict(engine="libsim", level="exploration", design_ref="DESIGN.md §3 C11",
   technique="deterministic simulation of the host/embedded-minifier interaction through the registry seam: recording, identity, absent and failing stub sub-minifiers registered through the public API (fault injection at the collaborator), recorded call history checked against the host construction; tape replay and shrinking",
   text="PARTIAL CLAIM: the interaction between a host minifier and the registry (who is called, with what, what happens when the callee is absent or fails), not the product space of host documents. Template-built HTML/SVG/CSS hosts with known payload spans (script/style/iframe/svg/math with and without type/src/async/nonce attributes and pre/div wrappers, style= and on*=, data: URIs quoted and unquoted, SVG style text/CDATA/attribute with the default style type or one named by contentStyleType, HTML>SVG>CSS nesting); each embedded media type is independently real, absent, recording, identity or failing-on-nth-call. The recorded dispatch history must equal the prediction (type from the type attribute or documented default, exact payload, inline=1 for attributes, document order, nothing else); stub output substituted in order; real minifiers commute with standalone calls; absent => pass-through; failing => outer call returns that error; real syntax error => located inside the construct.",
   note="Trusts: the template family and its model of documented defaults; payloads avoid characters the host must re-escape (host escaping belongs to C03). One known finding (failure inside a data: URI is swallowed) is listed in known_findings.json.")

PENDING = {}

def main():
    checks = []
    for pid in sorted(CHECKS):
        c = CHECKS[pid]
        checks.append({
            "property_id": pid,
            "quick_cmd": f"./verif check {pid} --tier quick",
            "thorough_cmd": f"./verif check {pid} --tier thorough",
            "evidence_file": f"/verif/evidence/{pid}.json",
            "replay_cmd_template": "./verif replay {path}",
            "engine": c["engine"],
            "level_claimed": {"category": c["level"], "text": c["text"], "design_ref": c["design_ref"]},
            "level_note": c["note"],
            "technique": c["technique"],
        })
    na = [{"property_id": k, "reason": v} for k, v in sorted({**NA, **PENDING}.items()) if k not in CHECKS]
    m = {
        "version": 1,
        "setup_cmd": "./verif setup",
        "hooks": {
            "guard": "none in /repo: seams are injected at build time with `go build -overlay` (generated files carry build tag verif); with the overlay absent the tree is byte-for-byte the committed one",
            "enable": "./verif regenerates the overlay from /repo's working tree (sync import of minify.go -> verifsync facade; os import of cmd/minify -> verifos facade; injected driver _test.go) and builds with GOTOOLCHAIN=local go1.26.8 test -c -overlay <file> -vet=off",
            "baseline_off_cmd": "cd /repo && GOFLAGS=-mod=mod go test -vet=off -count=1 -timeout 25m ./...",
            "source_commits": [],
            "add_only": True,
        },
        "engines": [
            {"name": "libsim", "path": "/verif/checks/lib", "serves_properties": [p for p in sorted(CHECKS) if CHECKS[p]["engine"] == "libsim"],
             "kind_free_text": "Go test binary importing the real packages from /repo (module replace + overlay); seeded scheduler over real goroutines in a synctest bubble; reader/writer/response-writer/sub-minifier doubles; choice tape, replay, shrinking"},
            {"name": "clisim", "path": "/verif/clisim", "serves_properties": [p for p in sorted(CHECKS) if CHECKS[p]["engine"] == "clisim"],
             "kind_free_text": "the real cmd/minify run() compiled as a test binary with an overlay-injected os facade; one OS process per simulated run on a real scratch directory; crash (SIGKILL) and errno injection at every FS-operation boundary; parent judges the disk image"},
        ],
        "checks": checks,
        "not_applicable": na,
        "notes": "Technique family: deterministic simulation with fault injection. Exit codes: 0 held, 1 VIOLATION (not in known_findings.json), 2 infrastructure trouble. VERIF_SEED selects the seed (default 1).",
    }
    json.dump(m, open("/verif/MANIFEST.json", "w"), indent=1)
    print("wrote MANIFEST.json:", len(checks), "checks,", len(na), "not applicable")

if __name__ == "__main__":
    main()
