#!/usr/bin/env python3
"""Re-runs every kept seeded change (/verif/seeded/*/) against the current machinery: for each
one a scratch worktree of /repo HEAD is made, the patch applied, and the quick tier of the
check(s) named first in meta.json's detected_by is run against it (VERIF_REPO). Prints one
line per change and writes /verif/work/reseed.json. Nothing is changed in /repo.
Usage: tools/reseed.py [id-substring]"""
import json, os, re, subprocess, sys, tempfile, glob

ROOT = os.path.dirname(os.path.dirname(os.path.abspath(__file__)))  # the /verif this script belongs to (a snapshot works too)
EVID = os.environ.get("RESEED_EVIDENCE", "/tmp/reseed-evidence")

ENV = dict(os.environ, GOFLAGS="-mod=mod", GOPROXY="off", GOSUMDB="off", GOTOOLCHAIN="local")

def sh(cmd, cwd):
    return subprocess.run(cmd, cwd=cwd, shell=True, env=ENV, stdout=subprocess.PIPE, stderr=subprocess.STDOUT, text=True)

def main():
    want = sys.argv[1] if len(sys.argv) > 1 else ""
    results = []
    os.makedirs(ROOT + "/work", exist_ok=True)
    for mp in sorted(glob.glob(ROOT + "/seeded/*/meta.json")):
        m = json.load(open(mp))
        sid = m["id"]
        if want and want not in sid:
            continue
        checks = []
        for d in m.get("detected_by", []):
            mm = re.match(r"(C\d\d) (quick|thorough)", d)
            if mm and "not detected" not in d.split(":")[0] and "not detected" not in d[:60]:
                checks.append((mm.group(1), mm.group(2)))
        rec = {"id": sid, "expected": [c for c, _ in checks], "checks": {}}
        if not checks:
            rec["status"] = "documented blind spot (not run)"
            results.append(rec)
            print(f"{sid:60s} blind spot, skipped", flush=True)
            continue
        wt = tempfile.mkdtemp(prefix="reseed.", dir="/tmp"); os.rmdir(wt)
        sh(f"git -C /repo worktree add -q --detach {wt} HEAD", "/")
        try:
            a = sh(f"git apply {os.path.dirname(mp)}/patch.diff", wt)
            if a.returncode != 0:
                rec["status"] = "patch does not apply to HEAD (written for an earlier commit; a later fix touches the same lines)"
            else:
                b = sh("go build ./...", wt)
                rec["status"] = "applied" if b.returncode == 0 else "does not build"
                if b.returncode == 0:
                    for c, tier in checks[:1]:
                        budget = "VERIF_BUDGET_MS=420000 " if tier == "thorough" else ""
                        r = sh(f"{budget}VERIF_REPO={wt} VERIF_EVIDENCE_DIR={EVID} ./verif check {c} --tier {tier}", ROOT)
                        kinds = sorted(set(re.findall(r"^violation: (\S+?)@", r.stdout, re.M)))
                        rec["checks"][c] = {"exit": r.returncode, "violation_kinds": kinds}
                        # every reported violation must replay: the first replay file, twice,
                        # each in a fresh process, must reproduce the same kind@site
                        mm = re.search(r"^VIOLATION property=\S+ replay=(\S+)", r.stdout, re.M)
                        if mm:
                            reps = []
                            for _ in range(2):
                                rr = sh(f"VERIF_REPO={wt} ./verif replay {mm.group(1)}", ROOT)
                                got = re.findall(r"^replay: reproduced (\S+)", rr.stdout, re.M)
                                reps.append((rr.returncode, got[0] if got else ""))
                            rec["checks"][c]["replay"] = reps
                            rec["checks"][c]["replay_reproduces"] = all(x[0] == 1 for x in reps) and reps[0] == reps[1]
        finally:
            sh(f"git -C /repo worktree remove --force {wt}", "/")
        results.append(rec)
        det = [c for c, v in rec["checks"].items() if v["exit"] == 1]
        rp = [v.get('replay_reproduces') for v in rec['checks'].values()]
        print(f"{sid:60s} {rec['status'][:40]:40s} detected_by={det} replays={rp} {[v['violation_kinds'][:3] for v in rec['checks'].values()]}", flush=True)
        json.dump(results, open(ROOT + "/work/reseed.json", "w"), indent=1)

if __name__ == "__main__":
    main()
