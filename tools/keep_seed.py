#!/usr/bin/env python3
"""keep_seed.py <src /tmp/wtout/cNN/X> <id> <property> <needs> <confirm json-or-text> : copies a confirmed seeded change into /verif/seeded/<id>/"""
import sys, os, shutil, json
src, sid, prop, needs, ran = sys.argv[1:6]
dst = f"/verif/seeded/{sid}"
os.makedirs(dst, exist_ok=True)
shutil.copy(f"{src}/patch.diff", f"{dst}/patch.diff")
if os.path.exists(f"{dst}/demo"): shutil.rmtree(f"{dst}/demo")
shutil.copytree(f"{src}/demo", f"{dst}/demo")
if os.path.exists(f"{src}/notes.md"): shutil.copy(f"{src}/notes.md", f"{dst}/notes.md")
meta = {"id": sid, "breaks_property": prop, "needs_to_manifest": needs, "confirmed_by": ran,
        "origin": "written by an independent sub-agent that saw only the property text and a scratch worktree",
        "detected_by": []}
if os.path.exists(f"{dst}/meta.json"):
    old = json.load(open(f"{dst}/meta.json")); meta["detected_by"] = old.get("detected_by", [])
json.dump(meta, open(f"{dst}/meta.json", "w"), indent=1)
print("kept", sid)
