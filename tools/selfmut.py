#!/usr/bin/env python3
"""Sensitivity sweep over the mechanisms the properties are anchored in (DESIGN.md §2.6):
each entry is a small, deliberate break of one mechanism. For each one this script makes a
scratch worktree of /repo HEAD, applies the edit, verifies that the tree still builds and
that the existing test suite still passes (otherwise the mutation is reported as 'caught by
the suite' and not counted), runs the named quick checks against the worktree
(VERIF_REPO) and records whether a VIOLATION was reported. Nothing is ever changed in /repo.
Usage: tools/selfmut.py [name-substring]   -> writes /verif/work/selfmut.json and prints a table."""
import json, os, re, subprocess, sys, tempfile, shutil

ENV = dict(os.environ, GOFLAGS="-mod=mod", GOPROXY="off", GOSUMDB="off", GOTOOLCHAIN="local")

def sub(path, old, new, count=1):
    def f(wt):
        p = os.path.join(wt, path)
        s = open(p).read()
        if old not in s:
            raise SystemExit(f"selfmut: pattern not found in {path}: {old[:60]!r}")
        open(p, "w").write(s.replace(old, new, count))
    return f

MUTS = [
 # C12
 ("c12-reader-drops-error", ["C12", "C14"], sub("minify.go", "\t\t\tpw.CloseWithError(err)\n", "\t\t\tpw.Close()\n")),
 ("c12-writeheader-keeps-content-length", ["C12"], sub("minify.go", "func (w *responseWriter) WriteHeader(status int) {\n\tw.ResponseWriter.Header().Del(\"Content-Length\")\n", "func (w *responseWriter) WriteHeader(status int) {\n")),
 ("c12-ignore-content-type", ["C12"], sub("minify.go", "if mediatype := w.ResponseWriter.Header().Get(\"Content-Type\"); mediatype != \"\" {", "if mediatype := w.ResponseWriter.Header().Get(\"Content-Type\"); mediatype != \"\" && w.mediatype == \"\" {")),
 ("c12-writer-goroutine-keeps-pipe-open", ["C12", "C14", "C10"], sub("minify.go", "\t\tdefer z.wg.Done()\n\t\tdefer pr.Close()\n\t\tif err := m.Minify(mediatype, w, pr); err != nil {", "\t\tdefer z.wg.Done()\n\t\tif err := m.Minify(mediatype, w, pr); err != nil {")),
 ("c12-close-returns-pipe-error-first", ["C12", "C14"], sub("minify.go", "\tif z.err == nil {\n\t\treturn err\n\t}\n\treturn z.err\n", "\tif err != nil || z.err == nil {\n\t\treturn err\n\t}\n\treturn nil\n")),
 # C13
 ("c13-css-options-not-copied", ["C13"], sub("css/css.go", "\ttmp := &Minifier{}\n\t*tmp = *o\n\to = tmp\n", "")),
 ("c13-svg-options-not-copied", ["C13"], sub("svg/svg.go", "\ttmp := &Minifier{}\n\t*tmp = *o\n\to = tmp\n", "")),
 ("c13-match-takes-write-lock", ["C13"], sub("minify.go", "func (m *M) Match(mediatype string) (string, map[string]string, MinifierFunc) {\n\tm.mutex.RLock()\n\tdefer m.mutex.RUnlock()\n", "func (m *M) Match(mediatype string) (string, map[string]string, MinifierFunc) {\n\tm.mutex.Lock()\n\tdefer m.mutex.Unlock()\n")),
 # C14
 ("c14-json-no-probe", ["C14"], sub("json/json.go", "\t\t\tif _, err := w.Write(nil); err != nil {\n\t\t\t\treturn err\n\t\t\t}\n", "")),
 ("c14-xml-no-probe", ["C14"], sub("xml/xml.go", "\t\t\tif _, err := w.Write(nil); err != nil {\n\t\t\t\treturn err\n\t\t\t}\n", "")),
 ("c14-css-no-probe", ["C14"], sub("css/css.go", "\tif _, err := w.Write(nil); err != nil {\n\t\treturn err\n\t}\n", "")),
 ("c14-html-swallows-reader-error", ["C14"], sub("html/html.go", "\t\t\tif l.Err() == io.EOF {\n\t\t\t\treturn nil\n\t\t\t}\n\t\t\treturn l.Err()\n", "\t\t\treturn nil\n")),
 ("c14-writer-err-not-stored", ["C14", "C12"], sub("minify.go", "\t\tif err := m.Minify(mediatype, w, pr); err != nil {\n\t\t\tz.err = err\n\t\t}\n", "\t\tm.Minify(mediatype, w, pr)\n")),
 # C15
 ("c15-pattern-before-literal", ["C15"], sub("minify.go", "\tif minifier, ok := m.literal[string(mimetype)]; ok { // string conversion is optimized away\n\t\treturn minifier.Minify(m, w, r, params)\n\t}\n\tfor _, minifier := range m.pattern {\n\t\tif minifier.pattern.Match(mimetype) {\n\t\t\treturn minifier.Minify(m, w, r, params)\n\t\t}\n\t}\n", "\tfor _, minifier := range m.pattern {\n\t\tif minifier.pattern.Match(mimetype) {\n\t\t\treturn minifier.Minify(m, w, r, params)\n\t\t}\n\t}\n\tif minifier, ok := m.literal[string(mimetype)]; ok { // string conversion is optimized away\n\t\treturn minifier.Minify(m, w, r, params)\n\t}\n")),
 ("c15-addregexp-prepends", ["C15"], sub("minify.go", "\tm.pattern = append(m.pattern, patternMinifier{pattern, minifier})\n", "\tm.pattern = append([]patternMinifier{{pattern, minifier}}, m.pattern...)\n")),
 ("c15-params-dropped", ["C15", "C11"], sub("minify.go", "\treturn m.MinifyMimetype(mimetype, w, r, params)\n", "\t_ = params\n\treturn m.MinifyMimetype(mimetype, w, r, nil)\n")),
 # C10
 ("c10-string-returns-output-on-error", ["C10"], sub("minify.go", "\tif err := m.Minify(mediatype, out, buffer.NewReader([]byte(v))); err != nil {\n\t\treturn v, err\n", "\tif err := m.Minify(mediatype, out, buffer.NewReader([]byte(v))); err != nil {\n\t\treturn string(out.Bytes()), err\n")),
 # C11
 ("c11-html-style-attr-not-inline", ["C11"], sub("html/html.go", "if err := m.MinifyMimetype(cssMimeBytes, attrMinifyBuffer, buffer.NewReader(val), inlineParams); err == nil {", "if err := m.MinifyMimetype(cssMimeBytes, attrMinifyBuffer, buffer.NewReader(val), nil); err == nil {")),
 ("c11-html-script-error-swallowed", ["C11", "C14"], sub("html/html.go", "\t\t\t\t\t\tif err != minify.ErrNotExist {\n\t\t\t\t\t\t\treturn minify.UpdateErrorPosition(err, z, t.Offset)\n\t\t\t\t\t\t}\n\t\t\t\t\t\tw.Write(t.Data)\n", "\t\t\t\t\t\tw.Write(t.Data)\n")),
 ("c11-iframe-uses-script-default", ["C11"], sub("html/html.go", "\t\t\t\t\tif rawTagHash == Iframe {\n\t\t\t\t\t\tmimetype = htmlMimeBytes\n\t\t\t\t\t} else if 0 < len(rawTagMediatype) {", "\t\t\t\t\tif 0 < len(rawTagMediatype) {")),
 # C19
 ("c19-exit-zero-on-failure", ["C19"], sub("cmd/minify/main.go", "\tif 0 < fails {\n\t\treturn 1\n\t}\n\treturn 0\n", "\t_ = fails\n\treturn 0\n")),
 ("c19-bundle-separator-newline-only", ["C19"], sub("cmd/minify/main.go", "\t\t\tsep = []byte(\";\\n\")", "\t\t\tsep = []byte(\"\\n\")")),
 ("c19-failure-writes-partial-output", ["C19"], sub("cmd/minify/main.go", "\t\tw = bytes.NewBuffer(b) // copy original\n", "")),
 ("c19-sync-copies-through-minifier", ["C19"], sub("cmd/minify/main.go", "\t\t\t\ttask, err := NewTask(root, input, output, !valid)\n\t\t\t\tif err != nil {\n\t\t\t\t\treturn nil, nil, err\n\t\t\t\t}\n\t\t\t\ttasks = append(tasks, task)\n\t\t\t}\n\t\t} else if info.Mode().IsDir() {", "\t\t\t\ttask, err := NewTask(root, input, output, false)\n\t\t\t\tif err != nil {\n\t\t\t\t\treturn nil, nil, err\n\t\t\t\t}\n\t\t\t\ttasks = append(tasks, task)\n\t\t\t}\n\t\t} else if info.Mode().IsDir() {")),
 ("c19-hidden-files-not-skipped", ["C19"], sub("cmd/minify/main.go", "} else if d.Name() == \"\" || !hidden && d.Name()[0] == '.' {", "} else if d.Name() == \"\" {")),
 ("c19-worker-drops-failures", ["C19"], sub("cmd/minify/main.go", "\tfor task := range chanTasks {\n\t\tif ok := minify(task); !ok {\n\t\t\tfails++\n\t\t}\n\t}\n\tchanFails <- fails\n", "\tfor task := range chanTasks {\n\t\tminify(task)\n\t}\n\tchanFails <- fails\n")),
 # C20
 ("c20-bak-removed-before-close", ["C20", "C19"], sub("cmd/minify/main.go", "\trLen, wLen := len(b), w.Len()\n\t_, err = io.Copy(fw, w)\n", "\trLen, wLen := len(b), w.Len()\n\tif bak != -1 {\n\t\tos.Remove(srcs[bak])\n\t\tbak = -1\n\t}\n\t_, err = io.Copy(fw, w)\n")),
 ("c20-no-restore-on-write-failure", ["C19", "C20"], sub("cmd/minify/main.go", "\t\t\t} else {\n\t\t\t\tif err = os.Remove(t.dst); err != nil {\n\t\t\t\t\tError.Println(err)\n\t\t\t\t\treturn false\n\t\t\t\t} else if err = os.Rename(srcs[i], t.dst); err != nil {\n\t\t\t\t\tError.Println(err)\n\t\t\t\t\treturn false\n\t\t\t\t}\n\t\t\t}\n", "\t\t\t} else {\n\t\t\t\tos.Remove(srcs[i])\n\t\t\t}\n")),
]

def sh(cmd, cwd, **kw):
    return subprocess.run(cmd, cwd=cwd, env=ENV, shell=True, stdout=subprocess.PIPE, stderr=subprocess.STDOUT, text=True, **kw)

def main():
    want = sys.argv[1] if len(sys.argv) > 1 else ""
    results = []
    os.makedirs("/verif/work", exist_ok=True)
    for name, checks, edit in MUTS:
        if want and want not in name:
            continue
        wt = tempfile.mkdtemp(prefix="selfmut.", dir="/tmp"); os.rmdir(wt)
        sh(f"git -C /repo worktree add -q --detach {wt} HEAD", "/")
        rec = {"mutation": name, "checks": {}}
        try:
            edit(wt)
            b = sh("go build ./... && go vet ./cmd/minify >/dev/null 2>&1; go build ./...", wt)
            if b.returncode != 0:
                rec["status"] = "does not build"; rec["log"] = b.stdout[-400:]
            else:
                t = sh("go test -vet=off -count=1 -timeout 90s ./... 2>&1 | tail -15", wt)
                if "FAIL" in t.stdout:
                    rec["status"] = "caught by the existing suite (not a realistic seeded change)"
                else:
                    rec["status"] = "passes the existing suite"
                for c in checks:
                    r = subprocess.run(f"VERIF_REPO={wt} VERIF_EVIDENCE_DIR=/tmp/mut-evidence ./verif check {c} --tier quick", cwd="/verif", shell=True, env=ENV, stdout=subprocess.PIPE, stderr=subprocess.STDOUT, text=True)
                    kinds = sorted(set(re.findall(r"^violation: (\S+?)@", r.stdout, re.M)))
                    rec["checks"][c] = {"exit": r.returncode, "violation_kinds": kinds}
        finally:
            sh(f"git -C /repo worktree remove --force {wt}", "/")
        results.append(rec)
        det = [c for c, v in rec["checks"].items() if v["exit"] == 1]
        print(f"{name:45s} {rec.get('status','?'):60s} detected_by={det} {[v['violation_kinds'][:3] for v in rec['checks'].values()]}", flush=True)
        json.dump(results, open("/verif/work/selfmut.json", "w"), indent=1)

if __name__ == "__main__":
    main()
