#!/bin/bash
# usage: tools/trymut.sh <patch.diff> <ID> [<ID>...]   — apply a seeded change to /repo, run the quick checks, undo.
patch=$1; shift
cd /repo || exit 2
if [ -n "$(git status --porcelain)" ]; then echo "repo not clean"; exit 2; fi
git apply "$patch" 2>/dev/null || { echo "patch does not apply to /repo HEAD (use VERIF_REPO with a worktree of the commit it was written for)"; exit 2; }
git reset -q
for id in "$@"; do
  echo "=== $id on $(basename $(dirname $patch))/$(basename $patch)"
  (cd /verif && VERIF_EVIDENCE_DIR=/tmp/mut-evidence ./verif check $id --tier ${TIER:-quick} 2>&1 | grep -E "^violation|^VIOLATION|^verif: property|INFRA|KNOWN" | head -${LINES_MAX:-12})
done
git checkout -q -- . && git clean -fdq
