// Command verif is the entry of every check: it regenerates the build overlay and the
// corpus from /repo's current working tree, builds the simulation binary, fans shards out
// over the cores, aggregates their results into /verif/evidence/<ID>.json and prints
// VIOLATION / KNOWN-FINDING lines. Exit 0: property held on everything explored; 1: a
// violation not listed in known_findings.json; 2: infrastructure trouble (never a
// VIOLATION).
package main

import (
	"bytes"
	"encoding/json"
	"flag"
	"fmt"
	"os"
	"os/exec"
	"path/filepath"
	"regexp"
	"runtime"
	"sort"
	"strconv"
	"strings"
	"sync"
	"time"

	"verif/corpus"
	"verif/overlaygen"
)

const goBin = "go1.26.8"

// repoDir is the tree under test: /repo, unless VERIF_REPO names a snapshot of it
// (background sweeps started with `vp run --with-repo`, so that experiments on /repo do
// not disturb them; registered checks always use /repo). verifDir is where this driver's
// sources are (the snapshot worktree for background runs).
var (
	repoDir  = "/repo"
	verifDir = "/verif"
	modFlag  []string
)

func init() {
	if wd, err := os.Getwd(); err == nil {
		if _, err := os.Stat(filepath.Join(wd, "cmd", "verif", "main.go")); err == nil {
			verifDir = wd
		}
	}
	if r := os.Getenv("VERIF_REPO"); r != "" && r != "/repo" {
		repoDir = r
		alt := filepath.Join(verifDir, "work", "alt.go.mod")
		if _, err := os.Stat(alt); err != nil {
			infra("VERIF_REPO is set but %s is missing (the entry script writes it)", alt)
		}
		modFlag = []string{"-modfile=" + alt}
	}
}

type propCfg struct {
	ID          string
	Engine      string // lib | cli
	Race        bool
	Level       string
	Rule        string
	Assumptions []string
	Components  map[string]string
	QuickMS     int
	ThoroughMS  int
	Shards      int
	MaxFile     int  // corpus file size cap (quick)
	Cost        bool // build with the work counters (simulated time) compiled in
}

var cfgs = map[string]*propCfg{}

func infra(format string, a ...any) {
	fmt.Fprintf(os.Stderr, "verif: INFRA: "+format+"\n", a...)
	os.Exit(2)
}

func goEnv() []string {
	env := os.Environ()
	env = append(env, "GOFLAGS=-mod=mod", "GOPROXY=off", "GOSUMDB=off", "GOTOOLCHAIN=local", "CGO_ENABLED=1")
	return env
}

type shardResult struct {
	Prop       string               `json:"prop"`
	Shard      int                  `json:"shard"`
	Cases      int64                `json:"cases"`
	Stats      map[string]int64     `json:"stats"`
	Distinct   []uint64             `json:"distinct"`
	DistinctN  int64                `json:"distinct_n"`
	Samples    []any                `json:"samples"`
	Violations []replayFile         `json:"violations"`
	WallS      float64              `json:"wall_s"`
	Exhaustive bool                 `json:"exhaustive"`
	Notes      []string             `json:"notes"`
	Digests    map[string][2]uint64 `json:"digests,omitempty"`
}

type violation struct {
	Kind   string `json:"kind"`
	Site   string `json:"site"`
	Detail string `json:"detail"`
}

type replayFile struct {
	Property  string    `json:"property"`
	Tier      string    `json:"tier"`
	Seed      uint64    `json:"seed"`
	Stream    string    `json:"stream"`
	Case      uint64    `json:"case"`
	Tape      []uint64  `json:"tape"`
	Random    bool      `json:"random,omitempty"`
	Violation violation `json:"violation"`
	OrigTape  int       `json:"orig_tape_len"`
	Engine    string    `json:"engine"`
	Env       []string  `json:"env,omitempty"` // extra environment of the shard (sub-scenario mode)
	Extra     any       `json:"extra,omitempty"`
	// see checks/lib.Replay
	FromRandom bool    `json:"from_random,omitempty"`
	WarmUp     *warmUp `json:"warm_up,omitempty"`
	Note       string  `json:"note,omitempty"`
	shard      int
	nshards    int
}

type warmUp struct {
	From    uint64 `json:"from"`
	Shard   int    `json:"shard"`
	NShards int    `json:"nshards"`
}

type knownFile struct {
	Findings []struct {
		Property string `json:"property"`
		Kind     string `json:"kind"`
		Site     string `json:"site_regexp"`
		What     string `json:"what"`
	} `json:"findings"`
	Fixed []string `json:"fixed"`
}

func loadKnown() *knownFile {
	k := &knownFile{}
	b, err := os.ReadFile(filepath.Join(verifDir, "known_findings.json"))
	if err != nil {
		return k
	}
	if err := json.Unmarshal(b, k); err != nil {
		infra("known_findings.json: %v", err)
	}
	return k
}

func (k *knownFile) match(prop string, v violation) (string, bool) {
	for _, f := range k.Findings {
		if f.Property != prop || f.Kind != v.Kind {
			continue
		}
		re, err := regexp.Compile("^(?:" + f.Site + ")$")
		if err != nil {
			infra("known_findings.json: bad site_regexp %q: %v", f.Site, err)
		}
		if re.MatchString(v.Site) {
			return f.What, true
		}
	}
	return "", false
}

type build struct {
	scratch string
	bin     string
	corpus  string
}

func run(dir string, env []string, name string, args ...string) ([]byte, error) {
	cmd := exec.Command(name, args...)
	cmd.Dir = dir
	cmd.Env = env
	var out bytes.Buffer
	cmd.Stdout, cmd.Stderr = &out, &out
	err := cmd.Run()
	return out.Bytes(), err
}

func buildLib(cfg *propCfg, tier string, scratch string) *build {
	ov, err := overlaygen.Lib(repoDir, verifDir, scratch)
	if err != nil {
		infra("overlay: %v", err)
	}
	buildMod := modFlag
	if cfg.Cost {
		// simulated time: work counters in the minifier packages and in a private copy of the
		// parse module (files of the module cache cannot be overlaid), which this build uses
		// through a replace directive in a modfile of its own
		out, err := run(verifDir, goEnv(), goBin, append(append([]string{"list"}, modFlag...), "-m", "-f", "{{.Dir}}", "github.com/tdewolff/parse/v2")...)
		src := strings.TrimSpace(string(out))
		if err != nil || src == "" || strings.Contains(src, "\n") {
			infra("cannot locate the parse module: %v %s", err, out)
		}
		parseDir := filepath.Join(scratch, "parsecopy")
		if out, err := run(verifDir, os.Environ(), "cp", "-r", src, parseDir); err != nil {
			infra("copy of the parse module: %v %s", err, out)
		}
		if out, err := run(verifDir, os.Environ(), "chmod", "-R", "u+w", parseDir); err != nil {
			infra("copy of the parse module: %v %s", err, out)
		}
		names, err := overlaygen.Cost(ov, repoDir, parseDir, scratch)
		if err != nil {
			infra("overlay: %v", err)
		}
		np := filepath.Join(scratch, "verifcost_names_gen.go")
		if err := os.WriteFile(np, names, 0o644); err != nil {
			infra("overlay: %v", err)
		}
		ov.Replace[filepath.Join(repoDir, "verifcost", "names_gen.go")] = np
		base := filepath.Join(verifDir, "go.mod")
		if len(modFlag) == 1 {
			base = strings.TrimPrefix(modFlag[0], "-modfile=")
		}
		mod, err := os.ReadFile(base)
		if err != nil {
			infra("modfile: %v", err)
		}
		sum, err := os.ReadFile(strings.TrimSuffix(base, ".mod") + ".sum")
		if err != nil {
			infra("modfile: %v", err)
		}
		cm := filepath.Join(scratch, "cost.go.mod")
		if err := os.WriteFile(cm, append(mod, []byte("\nreplace github.com/tdewolff/parse/v2 => "+parseDir+"\n")...), 0o644); err != nil {
			infra("modfile: %v", err)
		}
		if err := os.WriteFile(filepath.Join(scratch, "cost.go.sum"), sum, 0o644); err != nil {
			infra("modfile: %v", err)
		}
		buildMod = []string{"-modfile=" + cm}
	}
	ovPath := filepath.Join(scratch, "overlay.json")
	if err := ov.Write(ovPath); err != nil {
		infra("overlay: %v", err)
	}
	maxFile := cfg.MaxFile
	if maxFile == 0 {
		maxFile = 64 << 10
	}
	if tier == "thorough" {
		maxFile = 1 << 20
	}
	docs, err := corpus.Extract(repoDir, maxFile)
	if err != nil {
		infra("corpus: %v", err)
	}
	if len(docs) < 100 {
		infra("corpus: only %d documents extracted from %s", len(docs), repoDir)
	}
	cp := filepath.Join(scratch, "corpus.json")
	if err := corpus.Save(cp, docs); err != nil {
		infra("corpus: %v", err)
	}
	bin := filepath.Join(scratch, "lib.test")
	args := append([]string{"test", "-c"}, buildMod...)
	args = append(args, "-tags", "verif", "-overlay", ovPath, "-vet=off", "-o", bin)
	if cfg.Race {
		args = append(args, "-race")
	}
	args = append(args, "./checks/lib")
	if out, err := run(verifDir, goEnv(), goBin, args...); err != nil {
		infra("build of simulation binary failed (the tree under test may not compile):\n%s", out)
	}
	return &build{scratch: scratch, bin: bin, corpus: cp}
}

type shardOut struct {
	res     *shardResult
	exit    int
	stderr  string
	status  string
	env     []string
	shard   int
	nshards int
}

func runShard(b *build, cfg *propCfg, tier string, seed uint64, shard, nshards, budgetMS int, extra []string) shardOut {
	return runShardAs(b, cfg, tier, seed, shard, nshards, budgetMS, extra, "")
}

func runShardAs(b *build, cfg *propCfg, tier string, seed uint64, shard, nshards, budgetMS int, extra []string, tag string) shardOut {
	outPath := filepath.Join(b.scratch, fmt.Sprintf("shard%s%d.json", tag, shard))
	statusPath := filepath.Join(b.scratch, fmt.Sprintf("status%s%d.json", tag, shard))
	cmd := exec.Command(b.bin, "-test.run", "^TestSim$", "-test.timeout", "0", "-test.count", "1")
	cmd.Dir = b.scratch
	cmd.Env = append(os.Environ(),
		"VERIF_PROP="+cfg.ID, "VERIF_TIER="+tier, "VERIF_SEED="+strconv.FormatUint(seed, 10),
		"VERIF_SHARD="+strconv.Itoa(shard), "VERIF_NSHARDS="+strconv.Itoa(nshards),
		"VERIF_OUT="+outPath, "VERIF_STATUS="+statusPath, "VERIF_CORPUS="+b.corpus,
		"VERIF_BUDGET_MS="+strconv.Itoa(budgetMS),
		"GOMAXPROCS=1", "GORACE=halt_on_error=1 exitcode=66 history_size=2",
		"GOTRACEBACK=all", "TMPDIR="+b.scratch)
	cmd.Env = append(cmd.Env, extra...)
	var stderr bytes.Buffer
	cmd.Stdout, cmd.Stderr = &stderr, &stderr
	done := make(chan error, 1)
	if err := cmd.Start(); err != nil {
		infra("start shard: %v", err)
	}
	go func() { done <- cmd.Wait() }()
	var err error
	watchdog := time.Duration(budgetMS)*time.Millisecond*3 + 120*time.Second
	select {
	case err = <-done:
	case <-time.After(watchdog):
		cmd.Process.Signal(os.Interrupt)
		time.Sleep(500 * time.Millisecond)
		cmd.Process.Kill()
		<-done
		st, _ := os.ReadFile(statusPath)
		return shardOut{exit: -2, stderr: tail(stderr.String(), 6000), status: string(st), env: extra, shard: shard, nshards: nshards}
	}
	so := shardOut{stderr: tail(stderr.String(), 12000), env: extra, shard: shard, nshards: nshards}
	if err != nil {
		if ee, ok := err.(*exec.ExitError); ok {
			so.exit = ee.ExitCode()
		} else {
			so.exit = -1
		}
		st, _ := os.ReadFile(statusPath)
		so.status = string(st)
		return so
	}
	jb, rerr := os.ReadFile(outPath)
	if rerr != nil {
		so.exit = -1
		so.stderr += "\nno result file: " + rerr.Error()
		return so
	}
	so.res = &shardResult{}
	if jerr := json.Unmarshal(jb, so.res); jerr != nil {
		so.exit = -1
		so.stderr += "\nbad result file: " + jerr.Error()
		so.res = nil
	}
	return so
}

func tail(s string, n int) string {
	if len(s) > n {
		return "…" + s[len(s)-n:]
	}
	return s
}

func main() {
	if len(os.Args) < 2 {
		fmt.Fprintln(os.Stderr, "usage: verif check <ID> [--tier quick|thorough] | verif replay <file> | verif selftest")
		os.Exit(2)
	}
	switch os.Args[1] {
	case "check":
		fs := flag.NewFlagSet("check", flag.ExitOnError)
		tier := fs.String("tier", os.Getenv("VERIF_TIER"), "quick|thorough")
		if len(os.Args) < 3 {
			infra("check needs a property id")
		}
		id := os.Args[2]
		fs.Parse(os.Args[3:])
		if *tier == "" {
			*tier = "quick"
		}
		os.Exit(check(id, *tier))
	case "replay":
		if len(os.Args) < 3 {
			infra("replay needs a file")
		}
		os.Exit(replay(os.Args[2]))
	case "setup":
		os.Exit(setup())
	case "selftest":
		os.Exit(selftest(os.Args[2:]))
	default:
		infra("unknown command %q", os.Args[1])
	}
}

// setup warms the build cache (std with and without -race, the simulation binaries) so
// that the first check after a fresh restore does not pay for it.
func setup() int {
	scratch, err := os.MkdirTemp("", "verif-setup-")
	if err != nil {
		infra("scratch: %v", err)
	}
	defer os.RemoveAll(scratch)
	for _, id := range []string{"C14", "C13", "C19"} {
		cfg, ok := cfgs[id]
		if !ok {
			continue
		}
		sub := filepath.Join(scratch, id)
		os.MkdirAll(sub, 0o755)
		if cfg.Engine == "cli" {
			buildCLI(sub)
		} else {
			buildLib(cfg, "quick", sub)
		}
	}
	fmt.Println("verif: setup done")
	return 0
}

func seedFromEnv() uint64 {
	s := os.Getenv("VERIF_SEED")
	if s == "" {
		return 1
	}
	if n, err := strconv.ParseUint(s, 10, 64); err == nil {
		return n
	}
	if n, err := strconv.ParseInt(s, 10, 64); err == nil {
		return uint64(n)
	}
	infra("VERIF_SEED=%q is not an integer", s)
	return 0
}

func check(id, tier string) int {
	cfg, ok := cfgs[id]
	if !ok {
		infra("no check for property %q (see MANIFEST.json not_applicable)", id)
	}
	if tier != "quick" && tier != "thorough" {
		infra("bad tier %q", tier)
	}
	start := time.Now()
	seed := seedFromEnv()
	fmt.Printf("verif: property=%s tier=%s VERIF_SEED=%d engine=%s\n", id, tier, seed, cfg.Engine)
	scratch, err := os.MkdirTemp("", "verif-"+id+"-")
	if err != nil {
		infra("scratch: %v", err)
	}
	defer os.RemoveAll(scratch)
	if cfg.Engine == "cli" {
		return checkCLI(cfg, tier, seed, scratch, start)
	}
	b := buildLib(cfg, tier, scratch)
	buildS := time.Since(start).Seconds()
	nshards := cfg.Shards
	if nshards == 0 {
		nshards = runtime.NumCPU()
	}
	budget := cfg.QuickMS
	if tier == "thorough" {
		budget = cfg.ThoroughMS
	}
	if v := os.Getenv("VERIF_BUDGET_MS"); v != "" {
		if n, err := strconv.Atoi(v); err == nil {
			budget = n
		}
	}
	// Race-built workers are restarted in rounds: the Go race runtime never releases the
	// timer context of a synctest bubble (about 85 KB per simulated case), so a long run in
	// one process would exhaust memory. Every round gets its own range of case indices.
	roundMS := budget
	if cfg.Race && roundMS > 15000 {
		roundMS = 15000
	}
	var outs []shardOut
	var wg sync.WaitGroup
	for r, left := 0, budget; left > 0; r, left = r+1, left-roundMS {
		ms := roundMS
		if left < ms {
			ms = left
		}
		round := make([]shardOut, nshards)
		for i := 0; i < nshards; i++ {
			wg.Add(1)
			go func(i int) {
				defer wg.Done()
				extra := []string{fmt.Sprintf("VERIF_INDEX_BASE=%d", uint64(r)*100000000)}
				if r > 0 {
					extra = append(extra, "VERIF_RANDOM_ONLY=1")
				}
				round[i] = runShardAs(b, cfg, tier, seed, i, nshards, ms, extra, fmt.Sprintf("r%d_", r))
			}(i)
		}
		wg.Wait()
		outs = append(outs, round...)
		crashed := false
		for _, so := range round {
			if so.res == nil {
				crashed = true
			}
		}
		if crashed {
			break // the violation is already there; no point in more rounds
		}
	}
	if cfg.ID == "C13" {
		// sub-scenarios whose findings end the process run in a process of their own
		ms := 8000
		if tier == "thorough" {
			ms = 120000
		}
		// several short-lived processes rather than one long one: first-use effects (lazy
		// initialisation racing between the first callers) show only in a fresh process
		nproc := 4
		if tier == "thorough" {
			nproc = 12
		}
		exOuts := make([]shardOut, nproc)
		var ewg sync.WaitGroup
		for i := 0; i < nproc; i++ {
			ewg.Add(1)
			go func(i int) {
				defer ewg.Done()
				exOuts[i] = runShardAs(b, cfg, tier, seed, 0, 1, ms/2, []string{"VERIF_C13_MODE=extras", "VERIF_RANDOM_ONLY=1", fmt.Sprintf("VERIF_INDEX_BASE=%d", 900000000+uint64(i)*1000000)}, fmt.Sprintf("extras%d_", i))
			}(i)
		}
		ewg.Wait()
		outs = append(outs, exOuts...)
		n := 120
		if tier == "thorough" {
			n = 2000
		}
		v, st, crashed, vidx := crossProcessDeterminismOut(cfg, b, tier, seed, n)
		extra := shardOut{res: &shardResult{Prop: cfg.ID, Stats: st, Exhaustive: true}}
		if crashed != nil {
			// a crash (race report) in one of the fresh processes: attributed like any shard crash
			outs = append(outs, *crashed)
		} else if v != nil {
			extra.res.Violations = []replayFile{{Property: cfg.ID, Tier: tier, Seed: seed, Stream: cfg.ID, Case: vidx, Random: true, Violation: *v, Engine: "libsim"}}
		}
		outs = append(outs, extra)
	}
	return aggregate(cfg, tier, seed, b, outs, start, buildS)
}

// simulatedTime says what stands for time in this check's evidence.
func simulatedTime(cfg *propCfg, stats map[string]int64) string {
	if cfg.Cost {
		return fmt.Sprintf("%d ticks of the compiled-in work counter (one tick = one function call or loop iteration of the seven packages of the tree and of the parse module; copy/append/make charged per 8 elements) spent inside %d scaling probes; no wall clock is consulted by the oracle", stats["simulated_ticks"], stats["entry_scaling_probe"])
	}
	return "none: this property does not depend on a clock; reach is reported in scheduler steps and injected faults instead"
}

type evidence struct {
	PropertyID  string         `json:"property_id"`
	Tier        string         `json:"tier"`
	Seed        uint64         `json:"seed"`
	Level       string         `json:"level"`
	Coverage    map[string]any `json:"coverage"`
	Assumptions []string       `json:"assumptions"`
	WallS       float64        `json:"wall_s"`
	Violations  int            `json:"violations"`
}

func aggregate(cfg *propCfg, tier string, seed uint64, b *build, outs []shardOut, start time.Time, buildS float64) int {
	known := loadKnown()
	stats := map[string]int64{}
	distinct := map[uint64]struct{}{}
	var distinctOverflow int64
	var samples []any
	var cases int64
	var viols []replayFile
	notes := []string{}
	exhaustive := true
	crashSeen := map[string]bool{}
	for i, so := range outs {
		if so.res == nil {
			// abnormal end of a shard: a crash of the code under test (panic in a library
			// goroutine, race report, fatal error) is a violation; anything else is infra.
			v, ok := classifyCrash(cfg, so)
			if !ok {
				fmt.Fprintf(os.Stderr, "shard %d exit=%d status=%s\n%s\n", i, so.exit, so.status, so.stderr)
				infra("shard %d ended abnormally (exit %d) and the cause is not attributable to the code under test", i, so.exit)
			}
			k := v.Kind + "@" + v.Site
			if !crashSeen[k] {
				crashSeen[k] = true
				rf := crashReplay(cfg, tier, seed, b, so, v, known)
				viols = append(viols, rf)
			}
			stats["shards_ended_by_crash_or_race_report"]++
			exhaustive = false
			continue
		}
		r := so.res
		cases += r.Cases
		for k, v := range r.Stats {
			stats[k] += v
		}
		for _, d := range r.Distinct {
			distinct[d] = struct{}{}
		}
		if int64(len(r.Distinct)) < r.DistinctN {
			distinctOverflow += r.DistinctN - int64(len(r.Distinct))
		}
		for _, s := range r.Samples {
			if len(samples) < 6 {
				samples = append(samples, s)
			}
		}
		for _, v := range r.Violations {
			if len(v.Env) == 0 {
				v.Env = so.env
			}
			v.shard, v.nshards = so.shard, so.nshards
			viols = append(viols, v)
		}
		notes = append(notes, r.Notes...)
		if !r.Exhaustive {
			exhaustive = false
		}
	}
	// de-duplicate violations by key across shards, keep the shortest tape
	byKey := map[string]replayFile{}
	for _, v := range viols {
		k := v.Violation.Kind + "@" + v.Violation.Site
		// an explicit tape beats a (seed, stream, index) reference; among explicit tapes the shortest
		old, ok := byKey[k]
		if !ok || (old.Random && !v.Random) || (old.Random == v.Random && !v.Random && len(v.Tape) < len(old.Tape)) {
			byKey[k] = v
		}
	}
	// Every replay file must reproduce in a fresh process. A violation found in-process may
	// depend on what earlier cases left behind in that process (a package-level slice
	// overwritten by an earlier document): such a file gets a warm-up prescription, or, when
	// nothing reproduces it, a note that says so.
	if b != nil && cfg.Engine == "lib" && os.Getenv("VERIF_NO_CONFIRM") == "" {
		n := 0
		for k, v := range byKey {
			if n >= 12 || v.Violation.Kind == "hang" || v.Violation.Kind == "data-race" || v.Violation.Kind == "crash" || v.Random || len(v.Tape) == 0 {
				continue
			}
			if _, ok := known.match(cfg.ID, v.Violation); ok {
				continue
			}
			n++
			same := func(rf *replayFile) bool {
				got, _ := replayOnce(cfg, b, rf)
				return got != nil && got.Kind+"@"+got.Site == k
			}
			if same(&v) {
				continue
			}
			if v.FromRandom {
				alt := v
				alt.Random, alt.Tape = true, nil
				if same(&alt) {
					byKey[k] = alt
					continue
				}
				base := uint64(0)
				for _, e := range v.Env {
					if strings.HasPrefix(e, "VERIF_INDEX_BASE=") {
						base, _ = strconv.ParseUint(strings.TrimPrefix(e, "VERIF_INDEX_BASE="), 10, 64)
					}
				}
				if v.nshards > 0 && v.Case-base < 3_000_000 {
					alt.WarmUp = &warmUp{From: base, Shard: v.shard, NShards: v.nshards}
					alt.Note = "shows only after the earlier cases of its shard have run in the same process (state carried between documents): the replay runs them first"
					if same(&alt) {
						byKey[k] = alt
						continue
					}
				}
			}
			v.Note = "did not reproduce when replayed alone in a fresh process: it depends on process state this file cannot rebuild"
			byKey[k] = v
		}
	}
	keys := make([]string, 0, len(byKey))
	for k := range byKey {
		keys = append(keys, k)
	}
	sort.Strings(keys)
	newViol := 0
	replayDir := filepath.Join(verifDir, "work", "replays")
	if d := os.Getenv("VERIF_EVIDENCE_DIR"); d != "" {
		// experiments that redirect their evidence keep their replay files apart too, so that
		// concurrent runs do not overwrite one another's files
		replayDir = filepath.Join(d, "replays")
	}
	os.MkdirAll(replayDir, 0o755)
	knownLines, violLines := []string{}, []string{}
	knownIdx := map[string]int{}
	for n, k := range keys {
		v := byKey[k]
		if what, ok := known.match(cfg.ID, v.Violation); ok {
			if i, seen := knownIdx[what]; seen {
				knownLines[i] = strings.TrimSuffix(knownLines[i], "]") + ", " + k + "]"
			} else {
				knownIdx[what] = len(knownLines)
				knownLines = append(knownLines, fmt.Sprintf("KNOWN-FINDING: property=%s %s [%s]", cfg.ID, what, k))
			}
			continue
		}
		newViol++
		path := filepath.Join(replayDir, fmt.Sprintf("%s-%s-seed%d-%d.json", cfg.ID, tier, seed, n))
		jb, _ := json.MarshalIndent(v, "", " ")
		if err := os.WriteFile(path, jb, 0o644); err != nil {
			infra("write replay: %v", err)
		}
		violLines = append(violLines, fmt.Sprintf("VIOLATION property=%s replay=%s", cfg.ID, path))
		fmt.Printf("violation: %s\n  %s\n  tape=%v (shrunk from %d draws)\n", k, firstLines(v.Violation.Detail, 12), v.Tape, v.OrigTape)
	}
	wall := time.Since(start).Seconds()
	if len(samples) == 0 {
		samples = append(samples, map[string]any{"note": "no non-trivial case was produced"})
	}
	cov := map[string]any{
		"evaluations":         cases,
		"distinct_nontrivial": int64(len(distinct)) + distinctOverflow,
		"rule":                cfg.Rule,
		"samples":             samples,
		"counters":            stats,
		"runs_per_hour":       int64(float64(cases) / wall * 3600),
		"build_s":             buildS,
		"shards":              len(outs),
		"components":          cfg.Components,
		"simulated_time":      simulatedTime(cfg, stats),
		"notes":               notes,
		"known_findings_hit":  knownLines,
	}
	if cfg.Level == "fault_enumeration" || exhaustive {
		cov["exhaustive"] = exhaustive
	}
	ev := evidence{PropertyID: cfg.ID, Tier: tier, Seed: seed, Level: cfg.Level, Coverage: cov,
		Assumptions: cfg.Assumptions, WallS: wall, Violations: newViol}
	jb, _ := json.MarshalIndent(ev, "", " ")
	evDir := filepath.Join(verifDir, "evidence")
	if d := os.Getenv("VERIF_EVIDENCE_DIR"); d != "" {
		evDir = d // experiments on deliberately broken trees must not overwrite the real evidence
	}
	os.MkdirAll(evDir, 0o755)
	if err := os.WriteFile(filepath.Join(evDir, cfg.ID+".json"), jb, 0o644); err != nil {
		infra("write evidence: %v", err)
	}
	for _, l := range knownLines {
		fmt.Println(l)
	}
	for _, l := range violLines {
		fmt.Println(l)
	}
	fmt.Printf("verif: property=%s cases=%d distinct_nontrivial=%d violations=%d known=%d wall=%.1fs (build %.1fs)\n",
		cfg.ID, cases, int64(len(distinct))+distinctOverflow, newViol, len(knownLines), wall, buildS)
	if cases == 0 && len(viols) == 0 {
		infra("no case was executed")
	}
	if newViol > 0 {
		return 1
	}
	return 0
}

func firstLines(s string, n int) string {
	lines := strings.Split(s, "\n")
	if len(lines) > n {
		lines = append(lines[:n], "…")
	}
	return strings.Join(lines, "\n  ")
}

var frameFunc = regexp.MustCompile(`^\s{2}(\S+)\(`)
var frameFile = regexp.MustCompile(`^\s{6}(/\S+):(\d+)`)

// raceSite extracts, for each of the two access stacks of the first race report, the
// innermost function that belongs to the module under test (not the facade): the sorted
// pair is the site.
func raceSite(report string) (string, bool) {
	lines := strings.Split(report, "\n")
	var sites []string
	inStack := false
	found := false
	for i := 0; i < len(lines) && len(sites) < 2; i++ {
		l := lines[i]
		if strings.HasPrefix(l, "Read at ") || strings.HasPrefix(l, "Write at ") || strings.HasPrefix(l, "Previous read at ") || strings.HasPrefix(l, "Previous write at ") ||
			strings.HasPrefix(l, "Atomic ") || strings.HasPrefix(l, "Previous atomic ") {
			inStack, found = true, false
			continue
		}
		if strings.HasPrefix(l, "Goroutine ") {
			break
		}
		if !inStack || found {
			continue
		}
		if l == "" {
			if !found {
				sites = append(sites, "outside-module")
			}
			inStack = false
			continue
		}
		if m := frameFunc.FindStringSubmatch(l); m != nil && i+1 < len(lines) {
			if f := frameFile.FindStringSubmatch(lines[i+1]); f != nil && strings.HasPrefix(f[1], repoDir+"/") && !strings.Contains(f[1], "/verifsync/") && !strings.Contains(f[1], "/verifos/") {
				fn := strings.TrimPrefix(m[1], "github.com/tdewolff/minify/v2/")
				fn = strings.TrimPrefix(fn, "github.com/tdewolff/minify/v2.")
				sites = append(sites, fn)
				found = true
			}
		}
	}
	inRepo := false
	for _, s := range sites {
		if s != "outside-module" {
			inRepo = true
		}
	}
	if !inRepo {
		return "", false
	}
	sort.Strings(sites)
	return strings.Join(sites, "|"), true
}

var panicFunc = regexp.MustCompile(`(?m)^(github\.com/tdewolff/minify/v2[^\s(]*)\(`)

// classifyCrash decides whether an abnormal shard end is attributable to the code under
// test.
func classifyCrash(cfg *propCfg, so shardOut) (violation, bool) {
	switch {
	case so.exit == 66 || strings.Contains(so.stderr, "WARNING: DATA RACE"):
		idx := strings.Index(so.stderr, "WARNING: DATA RACE")
		rep := so.stderr
		if idx >= 0 {
			rep = so.stderr[idx:]
		}
		site, ok := raceSite(rep)
		if !ok {
			return violation{}, false // harness-only race: infrastructure
		}
		return violation{Kind: "data-race", Site: site, Detail: tail(rep, 6000)}, true
	case so.exit == 67 || strings.Contains(so.stderr, "VERIF-HANG"):
		site := "unknown"
		if i := strings.Index(so.stderr, "VERIF-HANG site="); i >= 0 {
			site = strings.TrimSpace(strings.SplitN(so.stderr[i+len("VERIF-HANG site="):], "\n", 2)[0])
		}
		return violation{Kind: "hang", Site: site, Detail: "the call did not return within the watchdog limit (a case normally takes milliseconds); confirmed by replaying the case alone"}, true
	case so.exit == -2:
		return violation{Kind: "hang", Site: "watchdog", Detail: "the simulated run never reached quiescence (a goroutine spins or is blocked outside the simulator's seams); last case: " + so.status + "\n" + so.stderr}, false
	case strings.Contains(so.stderr, "panic:") || strings.Contains(so.stderr, "fatal error:"):
		m := panicFunc.FindStringSubmatch(so.stderr)
		if m == nil {
			return violation{}, false
		}
		site := strings.TrimPrefix(strings.TrimPrefix(m[1], "github.com/tdewolff/minify/v2/"), "github.com/tdewolff/minify/v2.")
		idx := strings.Index(so.stderr, "panic:")
		if idx < 0 {
			idx = strings.Index(so.stderr, "fatal error:")
		}
		return violation{Kind: "crash", Site: site, Detail: tail(so.stderr[idx:], 6000)}, true
	}
	return violation{}, false
}

// crashReplay turns the status record of a crashed shard into a replay file.
func crashReplay(cfg *propCfg, tier string, seed uint64, b *build, so shardOut, v violation, known *knownFile) replayFile {
	var st struct {
		Index  uint64   `json:"index"`
		Vals   []uint64 `json:"vals"`
		Random bool     `json:"random"`
	}
	json.Unmarshal([]byte(strings.TrimSpace(so.status)), &st)
	rf := replayFile{Property: cfg.ID, Tier: tier, Seed: seed, Stream: cfg.ID, Case: st.Index, Tape: st.Vals, Random: st.Random,
		Violation: v, Engine: "libsim", OrigTape: len(st.Vals), Env: so.env}
	if _, ok := known.match(cfg.ID, v); ok {
		return rf // a listed finding needs no minimised replay
	}
	return shrinkCrash(cfg, b, rf)
}

func replay(path string) int {
	jb, err := os.ReadFile(path)
	if err != nil {
		infra("%v", err)
	}
	var rf replayFile
	if err := json.Unmarshal(jb, &rf); err != nil {
		infra("replay file: %v", err)
	}
	cfg, ok := cfgs[rf.Property]
	if !ok {
		infra("unknown property %q in replay file", rf.Property)
	}
	scratch, err := os.MkdirTemp("", "verif-replay-")
	if err != nil {
		infra("scratch: %v", err)
	}
	defer os.RemoveAll(scratch)
	if cfg.Engine == "cli" {
		return replayCLI(cfg, &rf, scratch, path)
	}
	b := buildLib(cfg, rf.Tier, scratch)
	if rf.Violation.Kind == "nondeterministic-output" {
		// "the same bytes in a new process" is a statement about several processes: the case
		// is run in twelve fresh ones and the digests of everything the library returned are
		// compared (what differs between processes is decided by the code under test, e.g. a
		// map iteration order, not by the simulator; twelve processes make it show)
		const n = 12
		digs := make([]string, n)
		var wg sync.WaitGroup
		for i := 0; i < n; i++ {
			wg.Add(1)
			go func(i int) {
				defer wg.Done()
				_, digs[i], _ = replayRaw(cfg, b, &rf)
			}(i)
		}
		wg.Wait()
		distinct := map[string]int{}
		for _, d := range digs {
			distinct[d]++
		}
		fmt.Printf("replay: %d fresh processes, output digests: %v\n", n, distinct)
		if _, bad := distinct[""]; bad {
			infra("replay: a process did not report a digest")
		}
		if len(distinct) < 2 {
			fmt.Println("replay: no violation reproduced")
			return 0
		}
		fmt.Printf("replay: reproduced %s@%s\n", rf.Violation.Kind, rf.Violation.Site)
		fmt.Printf("VIOLATION property=%s replay=%s\n", rf.Property, path)
		return 1
	}
	v, out := replayOnce(cfg, b, &rf)
	fmt.Print(out)
	if v == nil {
		fmt.Println("replay: no violation reproduced")
		return 0
	}
	fmt.Printf("replay: reproduced %s@%s\n", v.Kind, v.Site)
	if v.Kind == rf.Violation.Kind && v.Site == rf.Violation.Site {
		fmt.Printf("VIOLATION property=%s replay=%s\n", rf.Property, path)
		return 1
	}
	fmt.Printf("replay: but the recorded violation was %s@%s\n", rf.Violation.Kind, rf.Violation.Site)
	return 1
}

// replayOnce runs one tape in a fresh process and reports the violation it produced.
func replayOnce(cfg *propCfg, b *build, rf *replayFile) (*violation, string) {
	v, _, out := replayRaw(cfg, b, rf)
	return v, out
}

// replayRaw also returns the digest of everything the library returned in the case.
func replayRaw(cfg *propCfg, b *build, rf *replayFile) (*violation, string, string) {
	dir, err := os.MkdirTemp(b.scratch, "rp")
	if err != nil {
		infra("%v", err)
	}
	defer os.RemoveAll(dir)
	rp := filepath.Join(dir, "replay.json")
	jb, _ := json.Marshal(rf)
	os.WriteFile(rp, jb, 0o644)
	outPath := filepath.Join(dir, "out.json")
	cmd := exec.Command(b.bin, "-test.run", "^TestSim$", "-test.timeout", "0", "-test.count", "1")
	cmd.Dir = dir
	cmd.Env = append(os.Environ(), "VERIF_PROP="+cfg.ID, "VERIF_TIER="+rf.Tier, "VERIF_SEED="+strconv.FormatUint(rf.Seed, 10),
		"VERIF_REPLAY="+rp, "VERIF_OUT="+outPath, "VERIF_CORPUS="+b.corpus, "VERIF_STATUS="+filepath.Join(dir, "status.json"),
		"GOMAXPROCS=1", "GORACE=halt_on_error=1 exitcode=66 history_size=2", "GOTRACEBACK=all", "TMPDIR="+dir)
	cmd.Env = append(cmd.Env, rf.Env...)
	var buf bytes.Buffer
	cmd.Stdout, cmd.Stderr = &buf, &buf
	done := make(chan error, 1)
	if err := cmd.Start(); err != nil {
		infra("start replay: %v", err)
	}
	go func() { done <- cmd.Wait() }()
	select {
	case err = <-done:
	case <-time.After(300 * time.Second):
		cmd.Process.Kill()
		<-done
		return &violation{Kind: "hang", Site: "watchdog", Detail: tail(buf.String(), 4000)}, "", buf.String()
	}
	if err != nil {
		exit := -1
		if ee, ok := err.(*exec.ExitError); ok {
			exit = ee.ExitCode()
		}
		if v, ok := classifyCrash(cfg, shardOut{exit: exit, stderr: buf.String()}); ok {
			return &v, "", buf.String()
		}
		return nil, "", buf.String()
	}
	ob, err := os.ReadFile(outPath)
	if err != nil {
		return nil, "", buf.String()
	}
	var res struct {
		Violation *violation `json:"violation"`
		Digest    string     `json:"digest"`
	}
	json.Unmarshal(ob, &res)
	return res.Violation, res.Digest, buf.String()
}
