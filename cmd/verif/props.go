package main

var libComponents = map[string]string{
	"minify.go (registry, Reader/Writer/ResponseWriter/Middleware, io.Pipe, goroutines, WaitGroup)": "real",
	"css, html, js, json, svg, xml minifier packages and tdewolff/parse":                            "real",
	"sync.RWMutex/Mutex used by minify.go":                                                          "real lock behind the verifsync facade (overlay): Try+poll instead of blocking, would-block reported",
	"caller's io.Reader / io.Writer":                                                                "SimReader / SimWriter doubles (chunking, fail-stop faults, recording)",
	"net/http response":                                                                             "SimResponseWriter stub (headers frozen at first WriteHeader or body Write)",
	"goroutine scheduling":                                                                          "seeded scheduler over synctest quiescence; real goroutines",
	"clock":                                                                                         "synctest fake clock (only the scheduler uses it)",
}

func init() {
	cfgs["C14"] = &propCfg{
		ID: "C14", Engine: "lib", Level: "fault_enumeration",
		Rule: "case = (document from /repo's test tables, fuzz corpora and benchmarks; optionally embedded in an HTML host; entry point; fault kind; writer-call index k_w; reader byte offset k_r; chunking; schedule). " +
			"For each document a fault-free run measures W (Write calls incl. the final zero-length probe) and R (input bytes); then every k_w in [0,W) x {(0,err),(short,err)} and every k_r in [0,R] x {(0,err),(n>0,err)} is run through the plain call (strided for long documents: counters inputs_positions_sampled vs inputs_all_positions_enumerated), a spread through Writer/ResponseWriter/MiddlewareWithError/Match/Reader and through one level of embedding, then random cases. " +
			"The failing writer returns an opaque error or, in a third of the cases, a value a real sink hands out (io.EOF, io.ErrUnexpectedEOF, io.ErrShortWrite, io.ErrClosedPipe, a wrapped EOF, *net.OpError with EPIPE / ECONNRESET, context.Canceled, os.ErrDeadlineExceeded, syscall.EPIPE). One random case in 1024 goes through an external-command minifier (stdin or $in, stdout or $out; 1-64 byte or 100-300 KiB documents; real process; a third of the stdin/stdout ones through a filter that ignores SIGPIPE and reports a failed write or a short input by its exit status). One case in 64 names a media type nobody registered in front of the failing destination (plain call, Reader, Writer). One case in 64 (half of the file-spooling command cases) is preceded by 140 failed calls on the same registry. " +
			"distinct = distinct (document, embedding, entry, fault kind, k_w, k_r, reader kind, schedule hash); non-trivial = the injected fault actually fired.",
		Assumptions: []string{
			"fault model is fail-stop as the property states: once a reader or writer has failed it keeps failing",
			"when the fault-free run of a document already fails (syntax error) only 'some non-nil error, no panic, no hang' is demanded under fault",
			"the error must be errors.Is-equal to the injected one; error wording is not judged",
			"corpus comes from the tree under test; long documents are covered at strided positions in the quick tier",
		},
		Components: libComponents, QuickMS: 25000, ThoroughMS: 900000,
	}
	cfgs["C12"] = &propCfg{
		ID: "C12", Engine: "lib", Level: "exploration",
		Rule: "case = (document; entry point in {Minify, Match, Bytes, String, Reader, Writer, ResponseWriter, Middleware, MiddlewareWithError}; partition of the input into consecutive chunks; consumer buffer sizes; HTTP header/URI/status shape; schedule of producer task, minifier goroutine and consumer). " +
			"For the built-in inputs of <=10 bytes (<=12 in thorough) ALL 2^(n-1) compositions are run through every entry point (counter exhaustive_composition_cases), plus empty chunks; for corpus documents partitions are tape-drawn (1-byte, geometric, with empty chunks). Oracle: bytes and error equal the plain sequential reader->writer call of the same tree; output complete and goroutine finished at the event 'Close returned'; no write after Close; second Close nil; HTTP: no stale Content-Length, status forwarded, minifier chosen from Content-Type else mime.TypeByExtension(path.Ext(RequestURI)), pass-through when none. " +
			"distinct = distinct (document, entry, chunks, buffers, HTTP shape, schedule hash); non-trivial = more than one chunk, or more than 3 scheduler steps, or a byte/string helper call.",
		Assumptions: []string{
			"reference = plain m.Minify of the same tree, run sequentially: a legitimate change of minifier output cannot raise an alarm",
			"SimResponseWriter models only 'headers are frozen at the first WriteHeader or body Write' of net/http",
			"all six real minifiers read their whole input before writing; the streaming stub minifier (text/x-stream) is what produces output-before-input-ends interleavings",
			"error equality is by message text between the wrapper and the plain call of the same tree",
		},
		Components: libComponents, QuickMS: 25000, ThoroughMS: 900000,
	}
	cfgs["C13"] = &propCfg{
		ID: "C13", Engine: "lib", Race: true, Level: "exploration",
		Rule: "case = (shared option values; 2-6 client tasks x 1-3 calls each from {Minify, Bytes, String, Reader, Writer, Match, ResponseWriter, direct package Minify with the shared option struct}; documents biased to HTML hosts whose embedded content re-enters the registry and to inputs repeated across tasks; chunking; seeded interleaving of all tasks' yield points), run on ONE registry built with -race under the race-transparent scheduler. " +
			"Oracles: each call's bytes/error equal the sequential call with the same options; any race report; any lock wait (would-block); deep equality of the shared option structs before/after; cross-process equality of all outputs in eight fresh processes at GOMAXPROCS 1/2/4/8/16. One case in 16 uses the registry the tree ships (minify.Default of package minify/v2/minify, with its six template media types) instead of a freshly built one, and adds a fixed sweep of the six template types over four template documents to the compared digest. distinct = distinct (calls, options, schedule hash); non-trivial = at least two calls were in flight at the same scheduler step.",
		Assumptions: []string{
			"the scheduler hands control over without any happens-before edge between tasks (fake-clock polling, //go:norace state), so the race detector reports every conflicting unsynchronised pair executed by different tasks in the serial schedule; its shadow-memory limits (history_size, 4 shadow cells per word) still apply",
			"registration concurrent with use is never generated (outside the property)",
			"reference = sequential plain call on a registry built from copies of the option values",
			"AddCmd minifiers are exercised in a separate, unscheduled sub-scenario (real processes)",
		},
		Components: libComponents, QuickMS: 30000, ThoroughMS: 1200000, MaxFile: 16 << 10,
	}
	cfgs["C15"] = &propCfg{
		ID: "C15", Engine: "lib", Level: "exploration",
		Rule: "case = one operation history on a fresh registry: 0-12 registrations (Add, AddFunc, AddRegexp, AddFuncRegexp, and in 1/12 of histories AddCmd/AddCmdRegexp with a real helper process) over overlapping literal types and patterns, interleaved with 10-30 queries (Match+call, Minify, MinifyMimetype, Bytes, String, Reader, Writer incl. Close without a Write, ResponseWriter with the string as Content-Type) with media type strings varying case, surrounding spaces, 0-3 parameters with and without values and spaces; every query is compared with a 30-line reference model (literal first, else first-registered matching pattern, else ErrNotExist and zero bytes written; params after the first ';' as a map; Match answers what a call would use; re-registration replaces). Strings outside the grammar only: no panic, Match and Minify agree. distinct = distinct histories; non-trivial = at least two registrations.",
		Assumptions: []string{
			"no schedule or fault dimension exists in this property: this is the model-based (operation history vs. reference model) half of the technique only",
			"the model of the media type grammar is `type/subtype( *; *k( *= *v)?)*` with optional surrounding spaces; other strings are judged only for Match/Minify agreement",
			"command minifiers run real helper processes (the test binary in helper mode), not simulated",
		},
		Components: libComponents, QuickMS: 15000, ThoroughMS: 600000,
	}
	cfgs["C20"] = &propCfg{
		ID: "C20", Engine: "cli", Level: "fault_enumeration",
		Rule: "scenario = (directory tree; invocation shape in {in-place file, in-place directory -r, in-place bundle, separate file, separate directory, sync to directory, sync in place, symlink alias of input/destination, hard-link alias, stdin to file}; file types and sizes incl. empty, rejected-by-library and >32KiB; worker schedule tape). A fault-free run of the real cmd/minify records the operation trace (K operations); then the child is re-run on a rebuilt tree and SIGKILLed before EVERY operation that follows a mutating operation (rename, open-with-truncate, write, remove, mkdir, chmod, chown, chtimes, symlink; disk states between two non-mutating operations are identical), plus the completed run, and every file write is additionally torn at prefix lengths 1, n/2, n-1. Scenarios that rename are enumerated a second time with every write failing (ENOSPC), kills at every boundary of the restore path; a tree that registers a signal handler outside --watch gets a third enumeration in which SIGTERM is delivered to that handler at every such boundary. Each disk image is judged by the property's disjunction. evaluations = disk images examined (+1 fault-free run per scenario); distinct_nontrivial = images taken after at least one mutating operation; exhaustive = every such boundary of every explored scenario was examined.",
		Assumptions: []string{
			"crash model is process kill (the property's): the page cache survives, so 'durable' = 'the call returned', plus torn writes; power loss is out of scope",
			"the crashing operation k is the same operation in every re-run because the worker schedule is on the tape; the prefix of the crash run's trace is compared with the fault-free trace and a divergence aborts the check with exit 2",
			"for symlink/hard-link aliases of input and destination the property's path and .bak sibling range over both names",
			"expected new output = library call of the same tree (original bytes when the library rejects the input)",
		},
		Components: cliComponents, QuickMS: 40000, ThoroughMS: 1500000,
	}
	cfgs["C19"] = &propCfg{
		ID: "C19", Engine: "cli", Level: "exploration",
		Rule: "scenario = (directory tree: nesting, hidden files/dirs, unknown extensions, empty / library-rejected / >32KiB files, symlinks to files and directories, hard links, modes, now and then a chain of 34-45 nested directories, destinations that exist before the run, a regular file where the run needs a directory, inputs named by absolute paths (half of those with the tree as the file-system root of the child, chroot), two links to one directory; invocation shape from the README's grammar: file->stdout/file/dir, many files->dir, directory with/without trailing slash, -r, in place, stdin, --bundle to file/stdout (JS and non-JS, mixed types), --sync, --match/--include/--exclude (glob and ~regexp), --type, --ext, -a, -q/-v (sequential path), minifier option flags, refused invocations; two worker schedule tapes; optionally one injected errno into open, write, read, close, rename, remove, mkdirall, chmod, chown or chtimes). The real cmd/minify runs under the os facade; afterwards the file system, stdout and exit status are compared with a model whose contents come from library calls of the same tree. Under an injected errno only 'no other file modified' and 'inputs not harmed' are judged. evaluations = child runs; distinct_nontrivial = distinct worker schedules of judged runs plus runs in which the injected error actually fired.",
		Assumptions: []string{
			"the model covers only invocation shapes whose semantics cmd/minify/README.md states; shapes it does not pin (two files mapping to one destination, several files to stdout, symlinked directory as single input) are generated but not judged (counter scenarios_not_judged_undocumented_shape)",
			"expected bytes = library call of the same tree with the options the flags stand for; a legitimate change of minifier output cannot raise an alarm",
			"what a destination contains after an injected I/O error, and the exit status then, are not in the statement and not judged",
			"--watch, ownership preservation and Windows paths are not exercised",
		},
		Components: cliComponents, QuickMS: 35000, ThoroughMS: 1500000,
	}
	cfgs["C11"] = &propCfg{
		ID: "C11", Engine: "lib", Level: "exploration",
		Rule: "case = (host document built from templates with known payload spans: <script> with no/JS/module/ld+json/text/template type, <style>, style= and on*= attributes incl. javascript: prefix, inline <svg>/<math>, <iframe>, data: URIs (base64, percent-encoded, with parameters) in HTML attributes and CSS url(), SVG <style> text/CDATA/style=, HTML>SVG>CSS nesting; registry configuration: every embedded media type independently real / absent / recording stub / identity stub / stub failing on its n-th invocation after j bytes; optionally one payload the real minifier rejects). The host minifier is real and is called directly. Oracle over the recorded call history: each payload reaches the minifier registered for its type, with exactly the embedded bytes and inline=1 for attribute contexts, in document order, nothing else is dispatched; stub output appears in order in the outer output; real minifiers commute with standalone calls; absent => payload passes through and the call succeeds; failing stub => the outer call returns that error; real syntax error => parse.Error located inside the construct's span. distinct = distinct (host, configuration); non-trivial = the host has at least one embedded slot.",
		Assumptions: []string{
			"only the host<->embedded-minifier interaction through the registry seam is claimed, not the product space of host documents (that is input generation): hosts come from a template family",
			"payloads avoid characters the host must re-escape, so substitution is checked by containment in document order; host re-escaping itself belongs to C03",
			"the model of dispatch defaults is written from README.md / doc comments (script without type => application/javascript, style => text/css, iframe => text/html, attribute contexts inline=1)",
		},
		Components: libComponents, QuickMS: 15000, ThoroughMS: 600000,
	}
	cfgs["C10"] = &propCfg{
		ID: "C10", Engine: "lib", Level: "exploration",
		Rule: "case = (document of /repo's tests/corpora/benchmarks, optionally embedded in an HTML host; 1-3 stream faults from {truncate at k, drop / duplicate (up to 64x) / swap a chunk, flip or zero a byte, reader error after k bytes, writer failing from call k}, positions biased to markup characters, token interiors and the last bytes; entry point in {Minify, Bytes, String, Reader, Writer, direct package Minify}; default or extreme options: every Keep* flag, precisions -1, 0, 1, 20, +-2^30, MaxInt, MinInt). Oracles: no panic (recover in the task; a panic in a library goroutine kills the shard and is attributed), the call returns (scheduler deadlock/step budget; wall-clock watchdog confirmed by a solitary replay), Write calls and bytes <= 64*len+8192, Bytes/String return the caller's data unchanged when they report an error. distinct = distinct (document, delivered bytes, entry, options); every case is non-trivial (at least one fault). One case in 16: a seeded Peek(k)/Shift history on the exported html/svg/xml TokenBuffer, every returned token compared with the token list of a second lexer. One case in 16: a seeded JavaScript program from a small grammar (expressions, conditions dense in !, groups, && / || and comparisons, statements, declarations over few names, edge-case numeric literals, spreads of literals), alone, in <script> or in on*=, through Minify / Bytes / String. One case in 48: the string helpers of package minify/v2/minify (minify.CSS/HTML/SVG/JS/JSON/XML) on a damaged or rejected document behind a byte order mark, blanks or a NUL - on error the very same string must come back. One case in 32 (thorough: plus an enumeration of every unit of <= 4 bytes of every document of <= 64 bytes): a scaling probe on simulated time - a unit repeated r, 4r, 16r times, plain or with numbered identifiers; violation when the ticks grow by more than 10 for both x4 steps and the largest run exceeds 3e6 ticks.",
		Assumptions: []string{
			"only the hostile inputs and error paths that a misbehaving transport or collaborator produces from a corpus document are claimed - plus, labelled as workload generation and counted separately (entry_js_grammar), seeded JavaScript programs from a small grammar - not 'all byte strings' (that is fuzzing, another family): deep-nesting bombs, adversarial numbers and arbitrary non-UTF-8 are reached only as far as chunk duplication and byte flips produce them",
			"memory growth is not observable (Go has no allocator seam); time is simulated: a work counter compiled (by the build overlay) into every function entry and loop body of the seven packages of /repo and of a private copy of the parse module, copy/append charged per 8 elements; work hidden in other library calls is not counted; endless loops without a yield point are caught by a generous wall-clock watchdog that must reproduce in a solitary replay before it is reported",
			"when the call succeeds under a corrupting fault nothing is asserted about the output (the input simply was another document)",
		},
		Components: libComponents, QuickMS: 20000, ThoroughMS: 900000, Cost: true,
	}
}
