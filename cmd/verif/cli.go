package main

import (
	"encoding/json"
	"fmt"
	"os"
	"path/filepath"
	"runtime"
	"sync"
	"time"

	"verif/clisim"
	"verif/overlaygen"
	"verif/sim"
)

var cliComponents = map[string]string{
	"cmd/minify (run, createTasks, worker pool, minify, preserveAttributes, io.go) except --watch": "real, compiled as a test binary; only the import of package os is rerouted (overlay)",
	"minifier packages, argp, try, atime": "real",
	"file system":                         "real kernel file system on a scratch directory (tmpfs); every call goes through the verifos facade (trace, yield point, SIGKILL, torn write, errno injection)",
	"package os":                          "thin forwarding facade generated from the real package's export list",
	"worker goroutine scheduling":         "seeded scheduler inside the facade over synctest quiescence; real goroutines and channels",
	"clock":                               "synctest fake clock",
	"stdout/stderr":                       "files",
	"expected content (model)":            "library calls of the same tree, destinations from cmd/minify/README.md semantics",
}

func buildCLI(scratch string) string {
	ov, err := overlaygen.CLI(repoDir, verifDir, scratch)
	if err != nil {
		infra("overlay: %v", err)
	}
	ovPath := filepath.Join(scratch, "overlay-cli.json")
	if err := ov.Write(ovPath); err != nil {
		infra("overlay: %v", err)
	}
	bin := filepath.Join(scratch, "cli.test")
	if out, err := run(repoDir, goEnv(), goBin, "test", "-c", "-tags", "verif", "-overlay", ovPath, "-vet=off", "-o", bin, "./cmd/minify"); err != nil {
		infra("build of the CLI simulation binary failed (the tree under test may not compile):\n%s", out)
	}
	return bin
}

type cliCaseFunc func(r *clisim.Runner, base string, tape *sim.Tape) *clisim.Outcome

var cliCases = map[string]cliCaseFunc{"C20": clisim.C20Case, "C19": clisim.C19Case}

func checkCLI(cfg *propCfg, tier string, seed uint64, scratch string, start time.Time) int {
	bin := buildCLI(scratch)
	os.Setenv("VERIF_TIER", tier)
	buildS := time.Since(start).Seconds()
	base := clisim.ScratchBase()
	defer os.RemoveAll(base)
	r := &clisim.Runner{Bin: bin}
	f := cliCases[cfg.ID]
	budget := time.Duration(cfg.QuickMS) * time.Millisecond
	if tier == "thorough" {
		budget = time.Duration(cfg.ThoroughMS) * time.Millisecond
	}
	if v := os.Getenv("VERIF_BUDGET_MS"); v != "" {
		var n int
		if _, err := fmt.Sscan(v, &n); err == nil {
			budget = time.Duration(n) * time.Millisecond
		}
	}
	deadline := time.Now().Add(budget)
	var mu sync.Mutex
	stats := map[string]int64{}
	distinct := map[uint64]struct{}{}
	var samples []any
	sampleShapes := map[string]bool{}
	var viols []replayFile
	vkeys := map[string]bool{}
	var evals, nontrivial int64
	exhaustive := true
	var infraMsg string
	var skippedMsg string
	skipped := 0
	shrinking := 0
	next := uint64(0)
	workers := runtime.NumCPU()
	var wg sync.WaitGroup
	for w := 0; w < workers; w++ {
		wg.Add(1)
		go func() {
			defer wg.Done()
			for {
				mu.Lock()
				if time.Now().After(deadline) || infraMsg != "" || len(viols) >= 4 {
					mu.Unlock()
					return
				}
				i := next
				next++
				mu.Unlock()
				tape := sim.NewTape(seed, cfg.ID, i)
				out := f(r, base, tape)
				mu.Lock()
				if out.Infra != "" {
					if infraMsg == "" {
						infraMsg = fmt.Sprintf("case %d: %s", i, out.Infra)
					}
					mu.Unlock()
					return
				}
				if out.Skipped != "" {
					// not judged: a tree that streams a large file in tiny writes exceeds the
					// operation budget of a child on that one scenario; the others still count
					skipped++
					if skippedMsg == "" {
						skippedMsg = fmt.Sprintf("case %d: %s", i, out.Skipped)
					}
					stats["scenarios_not_judged_operation_budget_exhausted"]++
					mu.Unlock()
					continue
				}
				evals += int64(out.Evals)
				nontrivial += int64(out.Nontrivial)
				for k, v := range out.Stats {
					stats[k] += v
				}
				if out.Nontrivial > 0 {
					distinct[out.Key] = struct{}{}
					if m, ok := out.Sample.(map[string]any); ok && len(samples) < 6 {
						sh := fmt.Sprint(m["shape"])
						if !sampleShapes[sh] {
							sampleShapes[sh] = true
							samples = append(samples, out.Sample)
						}
					}
				}
				if !out.Exhaustive {
					exhaustive = false
				}
				var pending *replayFile
				if out.V != nil && !vkeys[out.V.Kind+"@"+out.V.Site] {
					vkeys[out.V.Kind+"@"+out.V.Site] = true
					rf := replayFile{Property: cfg.ID, Tier: tier, Seed: seed, Stream: cfg.ID, Case: i, Tape: tape.Recorded(),
						Violation: violation{out.V.Kind, out.V.Site, out.V.Detail}, OrigTape: tape.Used(), Engine: "clisim"}
					pending = &rf
				}
				if pending != nil {
					shrinking++
				}
				mu.Unlock()
				if pending != nil {
					// minimise outside the lock
					key := pending.Violation.Kind + "@" + pending.Violation.Site
					n := 0
					min := sim.Shrink(pending.Tape, func(v []uint64) bool {
						n++
						o := f(r, base, sim.ReplayTape(v))
						return o.Infra == "" && o.V != nil && o.V.Kind+"@"+o.V.Site == key
					}, 30)
					fin := f(r, base, sim.ReplayTape(min))
					if fin.V != nil && fin.V.Kind+"@"+fin.V.Site == key {
						pending.Tape = min
						pending.Violation.Detail = fin.V.Detail
					}
					mu.Lock()
					viols = append(viols, *pending)
					shrinking--
					mu.Unlock()
				}
			}
		}()
	}
	// a case that is still running long after the budget has ended (a child is capped at
	// 150 s, the model's library calls are not) is infrastructure trouble, never a verdict
	finished := make(chan struct{})
	go func() { wg.Wait(); close(finished) }()
	for grace, done := time.Until(deadline)+6*time.Minute, false; !done; grace = 5 * time.Minute {
		select {
		case <-finished:
			done = true
		case <-time.After(grace):
			mu.Lock()
			n, sh := next, shrinking
			mu.Unlock()
			if sh > 0 && time.Since(deadline) < 45*time.Minute {
				continue // a violation is being minimised (each candidate may be a whole crash enumeration)
			}
			infra("a scenario (one of the last %d started, up to case %d) was still running %.0f minutes after the budget had ended", workers, n, time.Since(deadline).Minutes())
		}
	}
	if infraMsg != "" {
		infra("%s", infraMsg)
	}
	if skipped > 3 && skipped*50 > int(next) {
		infra("%d of %d scenarios could not be judged; the first: %s", skipped, next, skippedMsg)
	}
	so := shardOut{res: &shardResult{Prop: cfg.ID, Cases: evals, Stats: stats, DistinctN: nontrivial, Samples: samples, Violations: viols, Exhaustive: exhaustive}}
	stats["scenarios_generated"] = int64(next)
	stats["distinct_schedules"] = int64(len(distinct))
	return aggregate(cfg, tier, seed, &build{scratch: scratch, bin: bin}, []shardOut{so}, start, buildS)
}

func replayCLI(cfg *propCfg, rf *replayFile, scratch, path string) int {
	bin := buildCLI(scratch)
	base := clisim.ScratchBase()
	defer os.RemoveAll(base)
	out := cliCases[cfg.ID](&clisim.Runner{Bin: bin}, base, sim.ReplayTape(rf.Tape))
	if out.Infra != "" {
		infra("%s", out.Infra)
	}
	jb, _ := json.MarshalIndent(map[string]any{"violation": out.V, "sample": out.Sample}, "", " ")
	fmt.Println(string(jb))
	if out.V == nil {
		fmt.Println("replay: no violation reproduced")
		return 0
	}
	fmt.Printf("replay: reproduced %s@%s\n", out.V.Kind, out.V.Site)
	fmt.Printf("VIOLATION property=%s replay=%s\n", rf.Property, path)
	return 1
}
