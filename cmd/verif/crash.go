package main

import (
	"encoding/json"
	"os"
	"path/filepath"
	"time"

	"verif/sim"
)

// shrinkCrash minimises the tape of a case that killed its process (race report, panic in
// a library goroutine). Each candidate is one fresh process. A random-search case is first
// re-run with a tape log so that its draws become an explicit tape.
func shrinkCrash(cfg *propCfg, b *build, rf replayFile) replayFile {
	key := rf.Violation.Kind + "@" + rf.Violation.Site
	if rf.Violation.Kind == "hang" {
		// confirm alone with a shorter limit; an unconfirmed hang is infrastructure trouble
		os.Setenv("VERIF_HANG_MS", "20000")
		v, _ := replayOnce(cfg, b, &rf)
		os.Unsetenv("VERIF_HANG_MS")
		if v != nil && v.Kind != "hang" {
			rf.Violation = *v // replayed alone the case ends with an ordinary violation: report that one
			return rf
		}
		if v == nil {
			infra("a case exceeded the watchdog limit but finished when replayed alone (overloaded machine?): %s", rf.Violation.Site)
		}
		return rf
	}
	if rf.Random {
		logPath := filepath.Join(b.scratch, "tapelog.json")
		os.Remove(logPath)
		os.Setenv("VERIF_TAPELOG", logPath)
		v, _ := replayOnce(cfg, b, &rf)
		os.Unsetenv("VERIF_TAPELOG")
		if v == nil || v.Kind+"@"+v.Site != key {
			return rf // keep the (seed, stream, index) form; it is what was observed
		}
		var vals []uint64
		if lb, err := os.ReadFile(logPath); err == nil {
			for _, line := range splitLines(lb) {
				var x uint64
				if json.Unmarshal(line, &x) == nil {
					vals = append(vals, x)
				}
			}
		}
		explicit := rf
		explicit.Random, explicit.Tape = false, vals
		if v2, _ := replayOnce(cfg, b, &explicit); v2 == nil || v2.Kind+"@"+v2.Site != key {
			return rf
		}
		rf = explicit
		rf.OrigTape = len(vals)
	}
	deadline := time.Now().Add(45 * time.Second)
	still := func(vals []uint64) bool {
		if time.Now().After(deadline) {
			return false
		}
		c := rf
		c.Tape = vals
		v, _ := replayOnce(cfg, b, &c)
		return v != nil && v.Kind+"@"+v.Site == key
	}
	if !still(rf.Tape) {
		return rf
	}
	rf.Tape = sim.Shrink(rf.Tape, still, 120)
	return rf
}

func splitLines(b []byte) [][]byte {
	var out [][]byte
	start := 0
	for i, c := range b {
		if c == '\n' {
			if i > start {
				out = append(out, b[start:i])
			}
			start = i + 1
		}
	}
	if start < len(b) {
		out = append(out, b[start:])
	}
	return out
}
