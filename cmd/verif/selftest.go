package main

import (
	"crypto/md5"
	"encoding/hex"
	"fmt"
	"os"
	"path/filepath"
	"sort"
	"strconv"
	"strings"
	"sync"
	"time"

	"verif/clisim"
	"verif/sim"
)

// digestRun executes the first maxcases random cases of a property in one process with the
// given GOMAXPROCS and returns case index -> [output digest, schedule hash].
func digestRun(cfg *propCfg, b *build, tier string, seed uint64, procs, maxcases, tag int) (map[string][2]uint64, shardOut) {
	so := runShardAs(b, cfg, tier, seed, 0, 1, 600000, []string{"VERIF_DIGESTS=1", fmt.Sprintf("VERIF_MAXCASES=%d", maxcases),
		fmt.Sprintf("GOMAXPROCS=%d", procs), "VERIF_RANDOM_ONLY=1"}, fmt.Sprintf("dig%d", tag))
	if so.res == nil {
		return nil, so
	}
	return so.res.Digests, so
}

// crossProcessDeterminism runs the same cases in fresh processes at several GOMAXPROCS
// values. A difference in library output is a violation of "repeating a call - in the same
// process or a new one - always gives the same bytes"; a difference only in the schedule
// hash means the simulator is not deterministic (infrastructure, exit 2).
func crossProcessDeterminism(cfg *propCfg, b *build, tier string, seed uint64, maxcases int) (*violation, map[string]int64) {
	v, st, _, _ := crossProcessDeterminismOut(cfg, b, tier, seed, maxcases)
	return v, st
}

// crossProcessDeterminismOut also hands back the shard record of a process that crashed (race
// report, panic in a library goroutine), so that the caller can attribute the crash to the
// case its status file names instead of to "case 0".
func crossProcessDeterminismOut(cfg *propCfg, b *build, tier string, seed uint64, maxcases int) (*violation, map[string]int64, *shardOut, uint64) {
	procs := []int{1, 4, 16, 2, 8, 1, 4, 16} // eight fresh processes: what differs per process (a map order) shows
	res := make([]map[string][2]uint64, len(procs))
	outs := make([]shardOut, len(procs))
	var wg sync.WaitGroup
	for i, p := range procs {
		wg.Add(1)
		go func(i, p int) {
			defer wg.Done()
			res[i], outs[i] = digestRun(cfg, b, tier, seed, p, maxcases, i)
		}(i, p)
	}
	wg.Wait()
	stats := map[string]int64{}
	for i := range procs {
		if res[i] == nil {
			if v, ok := classifyCrash(cfg, outs[i]); ok {
				return &v, stats, &outs[i], 0
			}
			fmt.Fprintln(os.Stderr, outs[i].stderr)
			infra("determinism pass: process with GOMAXPROCS=%d ended abnormally (exit %d)", procs[i], outs[i].exit)
		}
	}
	keys := make([]string, 0, len(res[0]))
	for k := range res[0] {
		keys = append(keys, k)
	}
	sort.Strings(keys)
	for _, k := range keys {
		for i := 1; i < len(procs); i++ {
			o, ok := res[i][k]
			if !ok {
				infra("determinism pass: case %s missing at GOMAXPROCS=%d", k, procs[i])
			}
			if o[1] != res[0][k][1] {
				// The schedule differs with the number of processors: two goroutines of the
				// code under test ran at the same time between two yield points and their
				// order mattered (an asynchronous hand-off inside the tree that the simulator
				// does not own; the pinned tree has none, its pipes are rendezvous). Counted
				// and reported; `verif selftest` insists on zero for the tree it is run on.
				stats["schedule_hash_mismatch_across_gomaxprocs"]++
			}
			if o[0] != res[0][k][0] {
				idx, _ := strconv.ParseUint(k, 10, 64)
				return &violation{Kind: "nondeterministic-output", Site: "cross-process",
					Detail: fmt.Sprintf("case %s (seed %d) produced different library output in two fresh processes (GOMAXPROCS=%d vs %d) under the same schedule", k, seed, procs[0], procs[i])}, stats, nil, idx
			}
		}
	}
	stats["schedule_hash_mismatch_across_gomaxprocs"] += 0
	stats["determinism_cases_compared"] = int64(len(keys))
	stats["determinism_processes"] = int64(len(procs))
	return nil, stats, nil, 0
}

func selftest(args []string) int {
	start := time.Now()
	scratch, err := os.MkdirTemp("", "verif-selftest-")
	if err != nil {
		infra("scratch: %v", err)
	}
	defer os.RemoveAll(scratch)
	ok := true
	report := func(name string, pass bool, detail string) {
		st := "ok  "
		if !pass {
			st, ok = "FAIL", false
		}
		fmt.Printf("selftest %s %-44s %s\n", st, name, detail)
	}
	// 1. race transparency of the scheduler
	raceCfg := &propCfg{ID: "X-RACE", Engine: "lib", Race: true}
	sub := filepath.Join(scratch, "race")
	os.MkdirAll(sub, 0o755)
	b := buildLib(raceCfg, "quick", sub)
	so := runShardAs(b, raceCfg, "quick", 1, 0, 1, 60000, nil, "r")
	planted := so.exit == 66 && strings.Contains(so.stderr, "selfRaceCase")
	report("planted race is reported (-race, serial schedule)", planted, fmt.Sprintf("exit=%d", so.exit))
	cleanCfg := &propCfg{ID: "X-CLEAN", Engine: "lib", Race: true}
	so = runShardAs(b, cleanCfg, "quick", 1, 0, 1, 60000, nil, "c")
	report("race-free workload produces no report", so.res != nil && so.exit == 0, fmt.Sprintf("exit=%d", so.exit))
	// 2. determinism of libsim across processes and GOMAXPROCS
	for _, id := range []string{"C12", "C14", "C10"} {
		cfg := cfgs[id]
		sub := filepath.Join(scratch, id)
		os.MkdirAll(sub, 0o755)
		b := buildLib(cfg, "quick", sub)
		v, st := crossProcessDeterminism(cfg, b, "quick", 7, 400)
		report("libsim determinism "+id+" (GOMAXPROCS 1/4/16/2)", v == nil && st["schedule_hash_mismatch_across_gomaxprocs"] == 0, fmt.Sprintf("%d cases x %d processes, %d schedule mismatches", st["determinism_cases_compared"], st["determinism_processes"], st["schedule_hash_mismatch_across_gomaxprocs"]))
		if v != nil {
			fmt.Printf("  %s@%s: %s\n", v.Kind, v.Site, v.Detail)
		}
	}
	{
		cfg := cfgs["C13"]
		sub := filepath.Join(scratch, "C13")
		os.MkdirAll(sub, 0o755)
		b := buildLib(cfg, "quick", sub)
		v, st := crossProcessDeterminism(cfg, b, "quick", 7, 150)
		report("libsim determinism C13 -race (GOMAXPROCS 1/4/16/2)", v == nil && st["schedule_hash_mismatch_across_gomaxprocs"] == 0, fmt.Sprintf("%d cases x %d processes, %d schedule mismatches", st["determinism_cases_compared"], st["determinism_processes"], st["schedule_hash_mismatch_across_gomaxprocs"]))
	}
	// 3. determinism of clisim: the same plan in 30 fresh processes
	{
		sub := filepath.Join(scratch, "cli")
		os.MkdirAll(sub, 0o755)
		bin := buildCLI(sub)
		base := clisim.ScratchBase()
		defer os.RemoveAll(base)
		r := &clisim.Runner{Bin: bin}
		sums := map[string]int{}
		n := 0
		for seed := uint64(0); seed < 6; seed++ {
			var first string
			for rep := 0; rep < 5; rep++ {
				tr, err := clisim.TraceOf(r, base, sim.NewTape(seed, "selftest", 3), []int{1, 4, 16, 2, 8}[rep])
				if err != nil {
					infra("clisim selftest: %v", err)
				}
				h := md5.Sum([]byte(tr))
				hs := hex.EncodeToString(h[:])
				if rep == 0 {
					first = hs
				}
				if hs != first {
					sums[fmt.Sprint(seed)]++
				}
				n++
			}
		}
		report("clisim determinism (6 scenarios x 5 processes)", len(sums) == 0, fmt.Sprintf("%d runs, %d scenarios diverged", n, len(sums)))
	}
	// 4. fidelity of the os facade: the unmodified binary under strace performs the same
	// mutating file-system operations, in the same order, as the facade records
	{
		sub := filepath.Join(scratch, "fid")
		os.MkdirAll(sub, 0o755)
		bin := buildCLI(sub)
		realBin := filepath.Join(sub, "minify.real")
		if err := clisim.BuildReal(repoDir, realBin); err != nil {
			infra("building the unmodified command: %v", err)
		}
		base := clisim.ScratchBase()
		defer os.RemoveAll(base)
		r := &clisim.Runner{Bin: bin}
		nScen := 60
		if len(args) > 0 && args[0] == "--thorough" {
			nScen = 600
		}
		bad, ops := 0, 0
		shapes := map[string]bool{}
		first := ""
		for i := 0; i < nScen; i++ {
			d, shape, n, err := clisim.Fidelity(r, realBin, base, sim.NewTape(11, "fidelity", uint64(i)))
			if err != nil {
				infra("fidelity: %v", err)
			}
			shapes[shape] = true
			ops += n
			if d != "" {
				bad++
				if first == "" {
					first = d
				}
			}
		}
		report("os facade == strace of the unmodified binary", bad == 0, fmt.Sprintf("%d scenarios, %d shapes, %d mutating operations compared, %d differ", nScen, len(shapes), ops, bad))
		if first != "" {
			fmt.Println(first)
		}
	}
	fmt.Printf("selftest finished in %.1fs\n", time.Since(start).Seconds())
	if !ok {
		return 2
	}
	return 0
}
