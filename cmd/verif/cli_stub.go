package main

import "time"

func checkCLI(cfg *propCfg, tier string, seed uint64, scratch string, start time.Time) int {
	infra("cli engine not built yet")
	return 2
}

func replayCLI(cfg *propCfg, rf *replayFile, scratch string) int {
	infra("cli engine not built yet")
	return 2
}

func selftest(args []string) int {
	infra("selftest not built yet")
	return 2
}

func buildCLI(scratch string) {}
