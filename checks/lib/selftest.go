package lib

import (
	"fmt"

	"verif/sim"
)

// Self-test workloads of the simulator itself (driven by `verif selftest`, never by a
// property check).
//
// X-RACE: two tasks increment a plain package-level counter with no synchronisation, each
// between two yield points. The scheduler runs them strictly one after the other, so the
// accesses never overlap in time; if the hand-off created a happens-before edge the race
// detector would stay silent. It must report.
//
// X-CLEAN: the same shape but each task touches only its own counter: there must be no
// report (the harness and the scheduler are invisible to the race detector).

var plantedCounter int

func selfRaceCase(env *Env, tape *sim.Tape) *CaseOut {
	out := &CaseOut{Nontrivial: true}
	own := make([]int, 4)
	clean := env.Prop == "X-CLEAN"
	InBubble(env.T, func() {
		s := sim.NewSched(tape)
		for i := 0; i < 4; i++ {
			i := i
			s.Go(fmt.Sprintf("t%d", i), func(t *sim.Task) {
				for k := 0; k < 3; k++ {
					t.Yield("step", k)
					if clean {
						own[i]++
					} else {
						plantedCounter++
					}
				}
			})
		}
		if v := s.Run(); v != nil {
			out.V = v
		}
		out.TraceHash = s.TraceHash
	})
	out.Key = out.TraceHash
	return out
}

func selfSearch(s *Search) {
	for i := uint64(0); i < 50 && s.More(); i++ {
		s.TryRandom(i)
	}
}

func init() {
	props["X-RACE"] = &propDef{Search: selfSearch, Case: selfRaceCase, Stream: "X-RACE"}
	props["X-CLEAN"] = &propDef{Search: selfSearch, Case: selfRaceCase, Stream: "X-CLEAN"}
}
