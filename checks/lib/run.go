package lib

import (
	"fmt"
	"os"
	"testing"

	"github.com/tdewolff/minify/v2"

	"verif/sim"
)

// FlagLockWait: a call that waits for a lock held by a call parked in I/O is a violation
// (set by C13, whose property says no call blocks on another).
var FlagLockWait bool

// RunStats is what a scheduled run reports besides its violation.
type RunStats struct {
	LockWaits int
	Steps     int
	Preempts  int
	MaxParked int
	TraceHash uint64
	Trace     []string
	Leak      string
}

// RunTasks executes the given tasks (each a list of ops run in order) on registry m under
// the seeded scheduler inside a fresh synctest bubble. All doubles get their yield points
// here, on the scheduler goroutine, before any task starts.
func RunTasks(t *testing.T, tape *sim.Tape, m *minify.M, tasks [][]*Op, stick int, maxSteps int, keepTrace bool) (*sim.Violation, RunStats) {
	var v *sim.Violation
	var st RunStats
	st.Leak = InBubble(t, func() {
		s := sim.NewSched(tape)
		s.Stick = stick
		s.KeepTrace = keepTrace || os.Getenv("VERIF_TRACE") != ""
		if maxSteps > 0 {
			s.MaxSteps = maxSteps
		}
		SetWouldBlockSink(s)
		s.FlagLockWait = FlagLockWait
		for ti, ops := range tasks {
			for oi, op := range ops {
				if op.NoYield {
					continue
				}
				if op.W != nil {
					op.W.P = s.NewPoint(fmt.Sprintf("t%d.o%d.w", ti, oi))
				}
				if op.R != nil {
					op.R.P = s.NewPoint(fmt.Sprintf("t%d.o%d.r", ti, oi))
				}
			}
		}
		for ti, ops := range tasks {
			ops := ops
			s.Go(fmt.Sprintf("t%d", ti), func(tk *sim.Task) {
				for i, op := range ops {
					if i > 0 {
						tk.Yield("next-op", i)
					}
					if tk.Aborted() {
						return
					}
					op.Exec(tk.Point, m)
				}
			})
		}
		v = s.Run()
		st.Steps, st.Preempts, st.MaxParked, st.TraceHash, st.Trace = s.Steps, s.Preempts, s.MaxParked, s.TraceHash, s.Trace
		st.LockWaits = s.LockWaits
		if os.Getenv("VERIF_TRACE") != "" {
			for _, l := range s.Trace {
				fmt.Fprintln(os.Stderr, "TRACE", l)
			}
		}
	})
	return v, st
}

// drawChunks draws a partition style and returns chunk sizes for an input of length n.
// mode 0: one chunk (empty list). 1: all 1-byte (capped). 2: geometric sizes.
// 3: includes empty chunks. The remainder always goes in one final chunk.
func drawChunks(tape *sim.Tape, n int, maxChunks int) []int {
	mode := tape.Draw(5)
	if mode == 4 {
		// sizes around the usual buffer sizes (bufio 4 KiB, io.Copy 32 KiB, 64 KiB), cycled
		if n < 4000 {
			mode = 2
		} else {
			var out []int
			left := n
			for i := 0; i < 64 && left > 0; i++ {
				sz := []int{4096, 32768, 65536, 512}[tape.Draw(4)] + tape.Draw(3) - 1
				out = append(out, sz)
				left -= sz
			}
			return out
		}
	}
	if mode == 0 || n == 0 {
		if mode == 3 {
			return []int{0}
		}
		return nil
	}
	var out []int
	switch mode {
	case 1:
		k := n
		if k > maxChunks {
			k = maxChunks
		}
		for i := 0; i < k; i++ {
			out = append(out, 1)
		}
	case 2, 3:
		k := 1 + tape.Draw(maxChunks)
		left := n
		for i := 0; i < k && left > 0; i++ {
			lim := left
			if lim > 64 && tape.Draw(4) != 0 {
				lim = 64
			}
			sz := 1 + tape.Draw(lim)
			if mode == 3 && tape.Draw(4) == 0 {
				sz = 0
			}
			out = append(out, sz)
			left -= sz
		}
	}
	return out
}

// sizedDoc builds a well-formed document of the media type whose length is close to a
// buffer-size boundary (4 KiB, 32 KiB, 64 KiB, ±2) or a random size up to 100 KiB, by
// repeating a small unit. Size-dependent behaviour of the wrappers and minifiers (internal
// buffers, thresholds) is not reachable with the small inputs of the test tables.
func sizedDoc(tape *sim.Tape, mt string) []byte {
	var target int
	if tape.Draw(3) != 0 {
		target = []int{4096, 4096, 8192, 32768, 65536}[tape.Draw(5)] + tape.Draw(5) - 2
	} else {
		target = 1 + tape.Draw(70000)
	}
	var head, unit, tail string
	switch mt {
	case "text/css":
		unit = "a { b : c ; }\n"
	case "application/javascript":
		unit = "x = x + 1 ;\n"
	case "application/json":
		head, unit, tail = "[ 0", " , 1.0", " ]"
	case "text/html":
		unit = "<p>  x  </p>\n"
	case "image/svg+xml":
		head, unit, tail = "<svg>", "<g>  </g>\n", "</svg>"
	case "text/xml":
		head, unit, tail = "<r>", "<a> b </a>\n", "</r>"
	default:
		unit = "0123456789abcdef"
	}
	var b []byte
	b = append(b, head...)
	for len(b)+len(tail)+len(unit) <= target {
		b = append(b, unit...)
	}
	// pad to the exact size with spaces (insignificant in all six grammars at this position)
	for len(b)+len(tail) < target {
		b = append(b, ' ')
	}
	return append(b, tail...)
}
