package lib

import (
	"bufio"
	"context"
	"errors"
	"fmt"
	"io"
	"net/http"
	"regexp"
	"runtime/debug"
	"strconv"

	"github.com/tdewolff/minify/v2"
	"github.com/tdewolff/minify/v2/css"
	"github.com/tdewolff/minify/v2/html"
	"github.com/tdewolff/minify/v2/js"
	"github.com/tdewolff/minify/v2/json"
	"github.com/tdewolff/minify/v2/svg"
	"github.com/tdewolff/minify/v2/xml"

	"verif/sim"
)

// Entry points of the library that an Op can exercise.
const (
	EPlain      = iota // m.Minify(mt, SimWriter, SimReader)
	EBytes             // m.Bytes
	EString            // m.String
	EReader            // m.Reader + consumer
	EWriter            // m.Writer + producer
	ERespWriter        // m.ResponseWriter driven like a handler
	EMiddleware        // m.Middleware(handler).ServeHTTP
	EMiddleErr         // m.MiddlewareWithError
	EMatch             // m.Match + call of the returned func
	nEntries
)

var entryNames = [...]string{"Minify", "Bytes", "String", "Reader", "Writer", "ResponseWriter", "Middleware", "MiddlewareWithError", "Match"}

var (
	jsRe   = regexp.MustCompile("^(application|text)/(x-)?(java|ecma|j|live)script(1\\.[0-5])?$|^module$")
	jsonRe = regexp.MustCompile("[/+]json$")
	xmlRe  = regexp.MustCompile("[/+]xml$")
)

// Options shared by all tasks of a run (C13 shares the structs on purpose).
type Options struct {
	CSS  *css.Minifier
	HTML *html.Minifier
	JS   *js.Minifier
	JSON *json.Minifier
	SVG  *svg.Minifier
	XML  *xml.Minifier
}

func DefaultOptions() *Options {
	return &Options{&css.Minifier{}, &html.Minifier{}, &js.Minifier{}, &json.Minifier{}, &svg.Minifier{}, &xml.Minifier{}}
}

// NewRegistry registers the six real minifiers the way cmd/minify does (three literal,
// three by pattern).
func NewRegistry(o *Options) *minify.M {
	m := minify.New()
	m.Add("text/css", o.CSS)
	m.Add("text/html", o.HTML)
	m.Add("image/svg+xml", o.SVG)
	m.AddRegexp(jsRe, o.JS)
	m.AddRegexp(jsonRe, o.JSON)
	m.AddRegexp(xmlRe, o.XML)
	m.AddFunc(MTStream, streamStub)
	m.AddFunc(MTFail, failStub)
	m.AddFunc(MTFailEarly, failEarlyStub)
	m.AddFunc(MTEarly, earlyStub)
	m.AddFunc(MTWrap, wrapStub)
	// external commands (this test binary as a helper, see HelperMain): nothing is spawned
	// until one of these types is used
	m.AddCmd(MTCmd, helperCmdArgs(900))
	m.AddCmd(MTCmdIn, helperCmdArgs(901, "-in", "$in.txt"))
	m.AddCmd(MTCmdOut, helperCmdArgs(902, "-out", "$out.txt"))
	m.AddCmd(MTCmdFile, helperCmdArgs(903, "-in", "$in.txt", "-out", "$out.txt"))
	m.AddCmd(MTCmdStream, helperCmdArgs(904, "-stream"))
	return m
}

// Stub minifiers registered through the public API. streamStub is the only minifier that
// produces output before its input has ended (all six real ones read everything first),
// which is what makes the pipe interleavings of the wrappers non-trivial. failStub writes
// half of its output and then fails.
const (
	MTStream    = "text/x-stream"
	MTFail      = "text/x-fail"
	MTFailEarly = "text/x-failearly"
	MTEarly     = "text/x-early"
	MTWrap      = "text/x-wrap" // output even for empty input: shows whether the minifier ran at all
	// served by external commands: stdin→stdout, $in→stdout, stdin→$out, $in→$out
	MTCmd     = "text/x-cmd"
	MTCmdIn   = "text/x-cmd-in"
	MTCmdOut  = "text/x-cmd-out"
	MTCmdFile = "text/x-cmd-in-out"
	// a well-behaved filter: copies while it reads, ignores SIGPIPE and exits with a status > 0
	// when a write fails or when its input ends before the announced length (what tools
	// written in Python, Node or Java, decompressors and parsers do)
	MTCmdStream = "text/x-cmd-stream"
)

var ErrStubFailed = errors.New("stub minifier: failed after half of the output")

// asciiUpper maps byte by byte, so the result does not depend on where a multi-byte
// character is cut by the chunking (bytes.ToUpper decodes UTF-8 and would).
func asciiUpper(b []byte) []byte {
	out := make([]byte, len(b))
	for i, c := range b {
		if 'a' <= c && c <= 'z' {
			c -= 'a' - 'A'
		}
		out[i] = c
	}
	return out
}

func streamStub(_ *minify.M, w io.Writer, r io.Reader, _ map[string]string) error {
	buf := make([]byte, 7)
	for {
		n, err := r.Read(buf)
		if n > 0 {
			if _, werr := w.Write(asciiUpper(buf[:n])); werr != nil {
				return werr
			}
		}
		if err == io.EOF {
			break
		}
		if err != nil {
			return err
		}
	}
	_, err := w.Write(nil)
	return err
}

// earlyStub succeeds after looking at the first bytes only, like a command that exits 0
// without draining its input (head -c N): the wrappers must not leave the producer blocked.
func earlyStub(_ *minify.M, w io.Writer, r io.Reader, _ map[string]string) error {
	buf := make([]byte, 5)
	n, err := io.ReadFull(r, buf)
	if err != nil && err != io.EOF && err != io.ErrUnexpectedEOF {
		return err
	}
	_, err = w.Write(asciiUpper(buf[:n]))
	return err
}

// failEarlyStub fails after the first byte of its input, while a producer is still writing
// the rest (a streaming filter that rejects its input at the header): no output, always the
// same error, whatever the chunking.
func failEarlyStub(_ *minify.M, _ io.Writer, r io.Reader, _ map[string]string) error {
	var one [1]byte
	if _, err := io.ReadFull(r, one[:]); err != nil && err != io.EOF && err != io.ErrUnexpectedEOF {
		return err
	}
	return ErrStubFailed
}

// wrapStub brackets its (upper-cased) input: unlike the six real minifiers it produces
// output for an empty document, so "the minifier was never called" is visible in the bytes.
func wrapStub(_ *minify.M, w io.Writer, r io.Reader, _ map[string]string) error {
	if _, err := w.Write([]byte("[")); err != nil {
		return err
	}
	b, err := io.ReadAll(r)
	if err != nil {
		return err
	}
	if _, err := w.Write(asciiUpper(b)); err != nil {
		return err
	}
	_, err = w.Write([]byte("]"))
	return err
}

func failStub(_ *minify.M, w io.Writer, r io.Reader, _ map[string]string) error {
	b, err := io.ReadAll(r)
	if err != nil {
		return err
	}
	if _, err := w.Write(b[:len(b)/2]); err != nil {
		return err
	}
	return ErrStubFailed
}

// Op is one call of an entry point together with its doubles and its observations.
// Everything it needs is decided before the task starts (rule (i)); results go only into
// the Op itself (rule (ii)).
type Op struct {
	Entry int
	MT    string
	In    []byte

	R          *sim.SimReader // EPlain, EReader, EMatch
	UseBytes   bool           // offer Bytes() on the reader
	ReaderKind int            // 0 the double itself, 1 wrapped in bufio.Reader, 2 wrapped in io.MultiReader
	WriterKind int            // 0 the double itself, 1 with Flush() error, 2 with Flush(), 3 with WriteString and Sync
	W          *sim.SimWriter // every entry that writes into a caller's writer
	// producer side (EWriter, ERespWriter, EMiddle*): sizes of successive Write calls;
	// the remainder goes in one call. A size 0 is an empty Write.
	WriteChunks []int
	// consumer side (EReader): buffer sizes of successive Read calls (then 4096).
	ReadBufs []int

	Mimetype []byte          // EMimetype: the (shared) mimetype slice
	NoYield  bool            // the doubles of this op are not yield points (the call runs in one turn)
	NoCopy   bool            // EBytes: hand the caller's slice over as it is (aliasing scenario)
	Direct   minify.Minifier // EDirect: the package minifier (shared option struct) called directly

	// HTTP
	ContentType   string
	RequestURI    string
	ContentLength string
	Status        int // explicit WriteHeader(Status) before the body when != 0
	Method        string
	EarlyHints    bool        // WriteHeader(103) before the Content-Type of the final response is set
	ReqHeader     http.Header // request headers (what the client sent must not change what the handler's response becomes)
	RespHeader    http.Header // further response headers the handler sets before it writes (Content-Encoding: identity, Vary, ETag)
	CtxCancelled  bool        // the request's context is already cancelled (a timeout middleware in front)
	// LateHeader: the handler writes its first chunk, then sets Content-Length and calls
	// WriteHeader (a page head written by hand followed by http.ServeContent)
	LateHeader bool
	Nested     bool // EMiddleware / EMiddleErr: the middleware is applied twice (router and route)
	// SharedHandler: one handler value, built once, serves the requests of several tasks (as in
	// a real server); its inner handler finds the op by the request URI and plays op.handle.
	SharedHandler http.Handler
	curY          *sim.Point

	// observations
	Out        []byte
	Err        error
	WriteErrs  []error
	CloseErr   error
	Close2Err  error
	Closed     bool
	OutAtClose []byte
	AtCloseN   int
	GotEOF     bool
	Consumed   []byte
	RW         *sim.SimResponseWriter
	MidErr     error
	MidErrSet  bool
	MatchNil   bool
	Panic      string
	Finished   bool
	scratch    []byte
}

// writer hands the destination over the way callers' writers come: the bare double, or one
// that also has a Flush / WriteString / Sync method (an adapter over a socket, a bufio-like
// type): extra methods must not change who reports the write error.
func (op *Op) writer() io.Writer {
	switch op.WriterKind {
	case 1:
		return flushErrWriter{op.W}
	case 2:
		return flushWriter{op.W}
	case 3:
		return stringWriter{op.W}
	}
	return op.W
}

type flushErrWriter struct{ *sim.SimWriter }

func (flushErrWriter) Flush() error { return nil }

type flushWriter struct{ *sim.SimWriter }

func (flushWriter) Flush() {}

type stringWriter struct{ *sim.SimWriter }

func (w stringWriter) WriteString(s string) (int, error) { return w.SimWriter.Write([]byte(s)) }
func (w stringWriter) Sync() error                       { return nil }

func (op *Op) reader() io.Reader {
	switch op.ReaderKind {
	case 1:
		// what callers usually hand over: a buffered reader (it implements io.WriterTo)
		return bufio.NewReaderSize(op.R, 16+len(op.R.Data)%4096)
	case 2:
		return io.MultiReader(op.R)
	}
	if op.UseBytes {
		// a reader with Bytes() hands its array to the minifier, which edits it in place
		// (documented zero-copy path): give it a private copy, never the shared corpus
		op.R.Data = append(make([]byte, 0, len(op.R.Data)+1), op.R.Data...)
		return sim.BytesReader{SimReader: op.R}
	}
	return op.R
}

// firstErr is the error an entry point reported through any of its channels.
func (op *Op) anyErr() []error {
	var es []error
	if op.Err != nil {
		es = append(es, op.Err)
	}
	es = append(es, op.WriteErrs...)
	if op.CloseErr != nil {
		es = append(es, op.CloseErr)
	}
	if op.MidErr != nil {
		es = append(es, op.MidErr)
	}
	return es
}

func (op *Op) sawErr(target error) bool {
	for _, e := range op.anyErr() {
		if errors.Is(e, target) {
			return true
		}
	}
	return false
}

// Exec performs the call. y is the yield point of the executing task (nil outside a
// scheduler).
func (op *Op) Exec(y *sim.Point, m *minify.M) {
	defer func() {
		if r := recover(); r != nil {
			op.Panic = fmt.Sprintf("%v\n%s", r, debug.Stack())
		}
		op.Finished = true
	}()
	switch op.Entry {
	case EPlain:
		op.Err = m.Minify(op.MT, op.writer(), op.reader())
		op.Out = op.W.Buf
	case nEntries + 1: // EMimetype
		op.Err = m.MinifyMimetype(op.Mimetype, op.writer(), op.reader(), nil)
		op.Out = op.W.Buf
	case nEntries: // EDirect
		op.Err = op.Direct.Minify(m, op.writer(), op.reader(), nil)
		op.Out = op.W.Buf
	case EMatch:
		_, params, f := m.Match(op.MT)
		if f == nil {
			op.MatchNil = true
			return
		}
		op.Err = f(m, op.writer(), op.reader(), params)
		op.Out = op.W.Buf
	case EBytes:
		in := op.In
		if !op.NoCopy {
			in = append([]byte(nil), op.In...)
		}
		op.Out, op.Err = m.Bytes(op.MT, in)
	case EString:
		s, err := m.String(op.MT, string(op.In))
		op.Out, op.Err = []byte(s), err
	case EReader:
		r := m.Reader(op.MT, op.reader())
		i := 0
		for {
			n := 4096
			if i < len(op.ReadBufs) {
				n = op.ReadBufs[i]
			}
			i++
			y.Yield("consume", n)
			if y.Aborted() {
				return
			}
			buf := make([]byte, n)
			k, err := r.Read(buf)
			op.Consumed = append(op.Consumed, buf[:k]...)
			if err == io.EOF {
				op.GotEOF = true
				break
			}
			if err != nil {
				op.Err = err
				break
			}
			if i > 1<<20 {
				op.Err = errors.New("harness: consumer made no progress")
				break
			}
		}
		op.Out = op.Consumed
	case EWriter:
		wc := m.Writer(op.MT, op.writer())
		op.produce(y, wc)
		y.Yield("close", 0)
		op.CloseErr = wc.Close()
		op.W.Seal()
		op.Closed = true
		op.OutAtClose, op.AtCloseN, _ = op.W.Snapshot()
		y.Yield("close2", 0)
		op.Close2Err = wc.Close()
		op.Out = op.OutAtClose
	case ERespWriter:
		op.RW = sim.NewSimResponseWriter(op.W)
		req := op.request()
		rw := m.ResponseWriter(op.RW, req)
		op.handle(y, rw)
		y.Yield("close", 0)
		op.CloseErr = rw.Close()
		op.W.Seal()
		op.Closed = true
		op.OutAtClose, op.AtCloseN, _ = op.W.Snapshot()
		y.Yield("close2", 0)
		op.Close2Err = rw.Close()
		op.Out = op.OutAtClose
	case EMiddleware, EMiddleErr:
		op.RW = sim.NewSimResponseWriter(op.W)
		req := op.request()
		if op.SharedHandler != nil {
			op.curY = y
			op.SharedHandler.ServeHTTP(op.RW, req)
			op.W.Seal()
			op.Closed = true
			op.OutAtClose, op.AtCloseN, _ = op.W.Snapshot()
			op.Out = op.OutAtClose
			return
		}
		next := http.HandlerFunc(func(w http.ResponseWriter, r *http.Request) { op.handle(y, w) })
		var h http.Handler
		errf := func(w http.ResponseWriter, r *http.Request, err error) {
			op.MidErr, op.MidErrSet = err, true
		}
		if op.Entry == EMiddleware {
			h = m.Middleware(next)
			if op.Nested {
				h = m.Middleware(h)
			}
		} else {
			h = m.MiddlewareWithError(next, errf)
			if op.Nested {
				h = m.Middleware(h) // outer on the router, inner (with the error function) on the route
			}
		}
		h.ServeHTTP(op.RW, req)
		op.W.Seal()
		op.Closed = true
		op.OutAtClose, op.AtCloseN, _ = op.W.Snapshot()
		op.Out = op.OutAtClose
	}
}

// SharedMiddleware builds one MiddlewareWithError handler for all the given ops.
func SharedMiddleware(m *minify.M, ops []*Op) http.Handler {
	byURI := map[string]*Op{}
	for _, op := range ops {
		byURI[op.RequestURI] = op
	}
	next := http.HandlerFunc(func(w http.ResponseWriter, r *http.Request) {
		if op := byURI[r.RequestURI]; op != nil {
			op.handle(op.curY, w)
		}
	})
	return m.MiddlewareWithError(next, func(w http.ResponseWriter, r *http.Request, err error) {
		if op := byURI[r.RequestURI]; op != nil {
			op.MidErr, op.MidErrSet = err, true
		}
	})
}

func (op *Op) request() *http.Request {
	req := &http.Request{RequestURI: op.RequestURI, Method: op.Method, Header: op.ReqHeader}
	if op.CtxCancelled {
		ctx, cancel := context.WithCancel(context.Background())
		cancel()
		req = req.WithContext(ctx)
	}
	return req
}

// handle plays the HTTP handler: headers, optional explicit status, body in chunks.
func (op *Op) handle(y *sim.Point, w http.ResponseWriter) {
	if op.EarlyHints {
		w.Header().Set("Link", "</style.css>; rel=preload; as=style")
		w.WriteHeader(http.StatusEarlyHints)
	}
	if op.ContentType != "" {
		w.Header().Set("Content-Type", op.ContentType)
	}
	for k, v := range op.RespHeader {
		w.Header()[k] = v
	}
	if op.ContentLength != "" {
		w.Header().Set("Content-Length", op.ContentLength)
	}
	if op.Status != 0 {
		w.WriteHeader(op.Status)
	}
	op.produce(y, w)
}

func (op *Op) produce(y *sim.Point, w io.Writer) {
	rest := op.In
	for i := 0; len(rest) > 0 || i < len(op.WriteChunks); i++ {
		n := len(rest)
		if i < len(op.WriteChunks) && op.WriteChunks[i] < n {
			n = op.WriteChunks[i]
		}
		y.Yield("produce", n)
		if y.Aborted() {
			return
		}
		// like io.Copy or bufio, the producer reuses one buffer: a Writer must not retain p
		// after Write returns, so the buffer is overwritten as soon as the call is back
		if cap(op.scratch) < n {
			op.scratch = make([]byte, n)
		}
		buf := op.scratch[:n]
		copy(buf, rest[:n])
		k, err := w.Write(buf)
		for i := range buf {
			buf[i] = 0xA5
		}
		if err != nil {
			op.WriteErrs = append(op.WriteErrs, err)
			return
		}
		if k != n {
			op.WriteErrs = append(op.WriteErrs, fmt.Errorf("harness: short write %d of %d without error", k, n))
			return
		}
		if rw, ok := w.(http.ResponseWriter); ok && op.LateHeader && i == 0 {
			rw.Header().Set("Content-Length", strconv.Itoa(len(op.In)))
			rw.WriteHeader(http.StatusOK)
		}
		rest = rest[n:]
		if i > 1<<20 {
			return
		}
	}
}
