package lib

import (
	"bytes"
	"fmt"
	"os"
	"os/exec"
	"runtime/debug"
	"syscall"

	"verif/sim"
)

// c13FdBudget: "repeating a call - in the same process - always gives the same bytes" in a
// process that is close to its descriptor limit (a server with many connections open; a
// container with a small `ulimit -n`), and in which the garbage collector does not happen to
// run between the calls. Both are schedules the environment chooses, so the simulation
// chooses them: RLIMIT_NOFILE is lowered to the descriptors already open plus 32 (one call
// of a file-argument command needs about ten while it runs), the collector is switched off
// for the duration (finalizers of forgotten *os.File values would otherwise close them at
// some unpredictable moment), and the same call is repeated 40 to 80 times. Whatever a call
// that has returned still holds decides how many repetitions succeed.
func c13FdBudget(env *Env, tape *sim.Tape) *CaseOut {
	out := &CaseOut{Nontrivial: true}
	m := NewRegistry(DefaultOptions())
	// small system programs only: the calls are repeated dozens of times within one case
	m.AddCmd("text/x-cmdfile", exec.Command("/bin/cp", "$in.txt", "$out.txt"))
	m.AddCmd("text/x-fd-in", exec.Command("/bin/cat", "$in.txt"))
	m.AddCmd("text/x-fd-out", exec.Command("/bin/sh", "-c", `cat > "$1"`, "sh", "$out.txt"))
	m.AddCmd("text/x-fd-std", exec.Command("/bin/cat"))
	mt := []string{"text/x-cmdfile", "text/x-fd-in", "text/x-fd-out", "text/x-fd-std"}[tape.Draw(4)]
	n := 40 + tape.Draw(41)
	data := []byte("the same input again and again\n")
	countFds := func() int {
		es, err := os.ReadDir("/proc/self/fd")
		if err != nil {
			return -1
		}
		return len(es)
	}
	open0 := countFds()
	var old syscall.Rlimit
	if open0 < 0 || syscall.Getrlimit(syscall.RLIMIT_NOFILE, &old) != nil {
		out.Nontrivial = false
		return out
	}
	lim := old
	lim.Cur = uint64(open0 + 32)
	if lim.Cur > old.Max {
		out.Nontrivial = false
		return out
	}
	gc := debug.SetGCPercent(-1)
	defer debug.SetGCPercent(gc)
	if err := syscall.Setrlimit(syscall.RLIMIT_NOFILE, &lim); err != nil {
		out.Nontrivial = false
		return out
	}
	defer syscall.Setrlimit(syscall.RLIMIT_NOFILE, &old)
	CurrentSite = "AddCmd:descriptor-budget:" + mt
	defer func() { CurrentSite = "" }()
	out.stat("extras_descriptor_budget_cases", 1)
	out.Key = HashOf("fdbudget", mt, n)
	out.Sample = map[string]any{"sub_scenario": "descriptor budget", "media_type": mt, "repetitions": n, "descriptors_open_before": open0, "limit": lim.Cur}
	var first *Op
	for i := 0; i < n; i++ {
		op := &Op{Entry: EPlain, MT: mt, In: data, NoYield: true}
		op.W, op.R = sim.NewSimWriter(nil), sim.NewSimReader(nil, data)
		op.Exec(nil, m)
		out.stat("extras_descriptor_budget_calls", 1)
		if op.Panic != "" {
			out.V = &sim.Violation{Kind: "panic", Site: "AddCmd:descriptor-budget", Detail: op.Panic}
			return out
		}
		if first == nil {
			first = op
			if op.Err != nil {
				// not even the first call fits: the budget is too small for this environment,
				// nothing to compare
				out.Nontrivial = false
				out.stat("extras_descriptor_budget_too_small", 1)
				return out
			}
			continue
		}
		if errText(op.Err) != errText(first.Err) || !bytes.Equal(op.Out, first.Out) {
			out.V = &sim.Violation{Kind: "repeat-differs", Site: "AddCmd:descriptor-budget",
				Detail: fmt.Sprintf("repetition %d of %d of the same call on %s returned %q (error %v), the first call returned %q (error %v); descriptors open before the first call: %d, now: %d, limit: %d (garbage collector held off)",
					i+1, n, mt, op.Out, op.Err, first.Out, first.Err, open0, countFds(), lim.Cur)}
			return out
		}
	}
	out.Digest = HashOf(first.Out, errText(first.Err))
	return out
}
