package lib

import (
	"bytes"
	"fmt"
	"net/url"
	"os"
	"os/exec"
	"path/filepath"
	"reflect"
	"strings"

	"github.com/tdewolff/minify/v2"

	"verif/corpus"
	"verif/sim"
)

// Clone copies the option values into fresh structs.
func (o *Options) Clone() *Options {
	c := DefaultOptions()
	*c.CSS, *c.HTML, *c.JS, *c.JSON, *c.SVG, *c.XML = *o.CSS, *o.HTML, *o.JS, *o.JSON, *o.SVG, *o.XML
	return c
}

func (o *Options) String() string {
	return fmt.Sprintf("css%+v html%+v js%+v json%+v svg%+v xml%+v", *o.CSS, *o.HTML, *o.JS, *o.JSON, *o.SVG, *o.XML)
}

func (o *Options) direct(mt string) minify.Minifier {
	switch mt {
	case "text/css":
		return o.CSS
	case "text/html":
		return o.HTML
	case "application/javascript":
		return o.JS
	case "application/json":
		return o.JSON
	case "image/svg+xml":
		return o.SVG
	case "text/xml":
		return o.XML
	}
	return nil
}

func drawOptions(tape *sim.Tape) *Options {
	o := DefaultOptions()
	if tape.Draw(3) == 0 {
		return o
	}
	b := func() bool { return tape.Draw(2) == 1 }
	prec := func() int { return []int{0, 0, 1, 3, 20, -1}[tape.Draw(6)] }
	o.HTML.KeepComments, o.HTML.KeepSpecialComments, o.HTML.KeepDefaultAttrVals = b(), b(), b()
	o.HTML.KeepDocumentTags, o.HTML.KeepEndTags, o.HTML.KeepQuotes, o.HTML.KeepWhitespace = b(), b(), b(), b()
	o.HTML.KeepConditionalComments = tape.Draw(4) == 3
	o.HTML.TemplateDelims = [][2]string{{}, {"{{", "}}"}, {"<%", "%>"}, {"<?", "?>"}}[tape.Draw(4)]
	o.CSS.KeepCSS2, o.CSS.Precision = b(), prec()
	// years, and small numbers (editions) which are legal values of an int option too
	o.JS.KeepVarNames, o.JS.Precision, o.JS.Version = b(), prec(), []int{0, 2015, 2019, 2022, 6, 1, 11, 999}[tape.Draw(8)]
	o.JSON.KeepNumbers, o.JSON.Precision = b(), prec()
	o.SVG.KeepComments, o.SVG.Precision = b(), prec()
	o.XML.KeepWhitespace = b()
	return o
}

const (
	EDirect   = nEntries     // direct call of the package minifier with the shared option struct
	EMimetype = nEntries + 1 // m.MinifyMimetype with a mimetype byte slice that the callers share
)

var c13Entries = []int{EPlain, EBytes, EString, EReader, EWriter, EMatch, ERespWriter, EDirect, EMimetype, EMiddleErr}

// mimetype slices shared by all tasks of a run, as a program that keeps them in package
// level variables does; the mixed-case ones are not registered (the call must fail with the
// not-exist error and leave the slice alone)
var sharedMimetypes = map[string][][]byte{}

func sharedMimetype(mt string, variant int) []byte {
	if sharedMimetypes[mt] == nil {
		up := []byte(mt)
		for i := range up {
			if i%2 == 0 && up[i] >= 'a' && up[i] <= 'z' {
				up[i] -= 32
			}
		}
		sharedMimetypes[mt] = [][]byte{[]byte(mt), up}
	}
	return sharedMimetypes[mt][variant%2]
}

func entryName(e int) string {
	if e == EDirect {
		return "pkg.Minifier.Minify"
	}
	if e == EMimetype {
		return "MinifyMimetype"
	}
	return entryNames[e]
}

type c13RefKey struct {
	opts string
	di   int
}

var c13RefCache = map[c13RefKey]*plainRef{}

func parseURL(s string) *url.URL {
	if s == "" {
		return nil
	}
	u, err := url.Parse(s)
	if err != nil {
		return nil
	}
	return u
}

func c13Reference(opts *Options, optsKey string, di int, doc corpus.Doc, siteURL ...string) *plainRef {
	k := c13RefKey{optsKey, di}
	if r, ok := c13RefCache[k]; ok {
		return r
	}
	m := NewRegistry(opts.Clone())
	if len(siteURL) > 0 {
		m.URL = parseURL(siteURL[0])
	}
	op := &Op{Entry: EPlain, MT: doc.MT, In: doc.Data, R: sim.NewSimReader(nil, doc.Data), W: sim.NewSimWriter(nil)}
	op.Exec(nil, m)
	r := &plainRef{Out: op.Out, Err: op.Err, W: op.W.Calls}
	if op.Panic != "" {
		r.Err = fmt.Errorf("panic: %s", op.Panic)
	}
	if len(c13RefCache) > 8192 {
		c13RefCache = map[c13RefKey]*plainRef{}
	}
	c13RefCache[k] = r
	return r
}

// hostDocs returns the indices of HTML documents whose embedded content re-enters the
// registry (nested read lock).
var hostIdx []int

func hostDocs(env *Env) []int {
	if hostIdx != nil {
		return hostIdx
	}
	for i, d := range env.Corpus {
		if d.MT != "text/html" || len(d.Data) > 16<<10 {
			continue
		}
		low := bytes.ToLower(d.Data)
		if bytes.Contains(low, []byte("<style")) || bytes.Contains(low, []byte("<script")) || bytes.Contains(low, []byte("<svg")) || bytes.Contains(low, []byte("style=")) || bytes.Contains(low, []byte("example.com")) || bytes.Contains(low, []byte("data:")) {
			hostIdx = append(hostIdx, i)
		}
	}
	if len(hostIdx) == 0 {
		hostIdx = []int{0}
	}
	return hostIdx
}

type c13Op struct {
	*Op
	di  int
	ref *plainRef
}

// c13Extras are two sub-scenarios that run in their own process (VERIF_C13_MODE=extras),
// because what they find ends the process (race report):
//   - aliasing: tasks call Bytes on ADJACENT sub-slices of one array (cap > len), the way a
//     caller slices a larger buffer; nothing outside a call's own slice may be touched;
//   - external commands: AddCmd minifiers (stdin/stdout and $in/$out file placeholders) are
//     called repeatedly and from several tasks.
func c13Extras(env *Env, tape *sim.Tape) *CaseOut {
	out := &CaseOut{Nontrivial: true}
	if tape.Draw(8) == 7 {
		return c13FdBudget(env, tape)
	}
	ntasks := 2 + tape.Draw(3)
	stick := []int{0, 1, 9}[tape.Draw(3)]
	if tape.Draw(2) == 0 {
		// external commands
		m := NewRegistry(DefaultOptions())
		catCmd, cpCmd := exec.Command("/bin/cat"), exec.Command("/bin/cp", "$in.txt", "$out.txt")
		m.AddCmd("text/x-cmd", catCmd)
		m.AddCmd("text/x-cmdfile", cpCmd)
		// a command whose executable was not on PATH when the user created the exec.Cmd
		// (cmd.Err is set) and is there by the time of the calls: whatever the calls make of
		// it, they all make the same of it and leave the user's object alone
		lateDir, _ := os.MkdirTemp("", "verif-late-")
		defer os.RemoveAll(lateDir)
		lateCmd := exec.Command("verif-late-cat")
		os.Symlink("/bin/cat", filepath.Join(lateDir, "verif-late-cat"))
		oldPath := os.Getenv("PATH")
		os.Setenv("PATH", lateDir+string(os.PathListSeparator)+oldPath)
		defer os.Setenv("PATH", oldPath)
		m.AddCmd("text/x-cmdlate", lateCmd)
		// the placeholders in other arrangements: output file only (input on stdin), and the
		// output file named before the input file
		outCmd := exec.Command("/bin/sh", "-c", `cat > "$1"`, "sh", "$out.txt")
		outInCmd := exec.Command("/bin/sh", "-c", `cp "$2" "$1"`, "sh", "$out.txt", "$in.txt")
		m.AddCmd("text/x-cmdout", outCmd)
		m.AddCmd("text/x-cmdoutin", outInCmd)
		userCmds := []*exec.Cmd{catCmd, cpCmd, lateCmd, outCmd, outInCmd}
		snap := func() string {
			var sb strings.Builder
			for _, c := range userCmds {
				fmt.Fprintf(&sb, "path=%q args=%q err=%v dir=%q env=%d stdin=%v stdout=%v|", c.Path, c.Args, c.Err, c.Dir, len(c.Env), c.Stdin != nil, c.Stdout != nil)
			}
			return sb.String()
		}
		userBefore := snap()
		var tasks [][]*Op
		var all []*Op
		streaming := false
		for ti := 0; ti < ntasks; ti++ {
			var ops []*Op
			for oi := 0; oi < 1+tape.Draw(2); oi++ {
				data := []byte(fmt.Sprintf("payload of task %d call %d\n", ti, oi))
				// the call runs in one scheduler turn: a task blocked in a real wait4 must not
				// depend on a goroutine that is parked for the scheduler
				mtc := []string{"text/x-cmd", "text/x-cmdfile", "text/x-cmdlate", "text/x-cmdout", "text/x-cmdoutin"}[tape.Draw(5)]
				if oi == 0 && tape.Draw(2) == 0 {
					// what a process does on its very FIRST use of a mechanism (lazy initialisation)
					// is seen only once per process: make it likely that several tasks begin
					// with the file-argument command
					mtc = "text/x-cmdfile"
				}
				op := &Op{Entry: EPlain, MT: mtc, In: data, NoYield: true}
				op.W, op.R = sim.NewSimWriter(nil), sim.NewSimReader(nil, data)
				if mtc == "text/x-cmdfile" && tape.Draw(3) == 0 {
					// a streaming call: the Writer stays open between its producer's writes (yield
					// points) while other tasks call the same command; nobody may have to wait
					// for it ("no call blocks on another"). File arguments only: with stdin/stdout
					// the child would wait for goroutines that are parked for the scheduler.
					op.Entry, op.NoYield = EWriter, false
					op.WriteChunks = []int{len(data) / 2}
					streaming = true
				}
				ops = append(ops, op)
				all = append(all, op)
			}
			tasks = append(tasks, ops)
		}
		if streaming {
			out.stat("extras_command_minifier_cases_with_an_open_writer", 1)
		}
		FlagLockWait = true
		sv, st := RunTasks(env.T, tape, m, tasks, stick, 100000, false)
		FlagLockWait = false
		out.stat("extras_command_minifier_calls", int64(len(all)))
		out.TraceHash = st.TraceHash
		if sv != nil {
			out.V = &sim.Violation{Kind: sv.Kind, Site: "AddCmd", Detail: sv.Detail}
			return out
		}
		if userAfter := snap(); userAfter != userBefore {
			out.V = &sim.Violation{Kind: "user-object-mutated", Site: "AddCmd", Detail: fmt.Sprintf("an exec.Cmd handed to AddCmd was changed by the calls:\nbefore %s\nafter  %s", userBefore, userAfter)}
			return out
		}
		lateResult := ""
		for _, op := range all {
			if op.Panic != "" {
				out.V = &sim.Violation{Kind: "panic", Site: "AddCmd", Detail: op.Panic}
				return out
			}
			if op.MT == "text/x-cmdlate" {
				// success or failure is not prescribed, only that every call agrees
				r := fmt.Sprintf("ok=%v echoed=%v", op.Err == nil, bytes.Equal(op.Out, op.In))
				if lateResult == "" {
					lateResult = r
				} else if r != lateResult {
					out.V = &sim.Violation{Kind: "output-differs", Site: "AddCmd:" + op.MT, Detail: fmt.Sprintf("identical calls of one command minifier disagree: %s vs %s (last error %v)", lateResult, r, op.Err)}
					return out
				}
				continue
			}
			if op.Entry == EWriter && op.Err == nil {
				op.Err = op.CloseErr
			}
			if op.Err != nil || !bytes.Equal(op.Out, op.In) {
				out.V = &sim.Violation{Kind: "output-differs", Site: "AddCmd:" + op.MT,
					Detail: fmt.Sprintf("command minifier (cat / cp $in $out / cat > $out / cp into $out from $in) returned %q err=%v for input %q when called repeatedly from several tasks", op.Out, op.Err, op.In)}
				return out
			}
		}
		return out
	}
	// aliasing
	var docs []corpus.Doc
	var dis []int
	total := 0
	n := ntasks * (1 + tape.Draw(2))
	for i := 0; i < n; i++ {
		di := tape.Draw(len(env.Corpus))
		if d := env.Corpus[di]; len(d.Data) == 0 || len(d.Data) > 4096 {
			di = tape.Draw(len(ShortDocs()))
		}
		docs = append(docs, env.Corpus[di])
		dis = append(dis, di)
		total += len(env.Corpus[di].Data)
	}
	arena := make([]byte, 0, total+8)
	var spans [][2]int
	for _, d := range docs {
		spans = append(spans, [2]int{len(arena), len(arena) + len(d.Data)})
		arena = append(arena, d.Data...)
	}
	arena = append(arena, "SENTINEL"...)
	before := append([]byte(nil), arena...)
	opts := DefaultOptions()
	m := NewRegistry(opts)
	var tasks [][]*Op
	var all []*Op
	var refs []*plainRef
	for i, d := range docs {
		op := &Op{Entry: EBytes, MT: d.MT, In: arena[spans[i][0]:spans[i][1]], NoCopy: true}
		refs = append(refs, c13Reference(opts, opts.String(), dis[i], d))
		all = append(all, op)
		ti := i % ntasks
		for len(tasks) <= ti {
			tasks = append(tasks, nil)
		}
		tasks[ti] = append(tasks[ti], op)
	}
	sv, st := RunTasks(env.T, tape, m, tasks, stick, 100000, false)
	out.stat("extras_aliasing_calls", int64(len(all)))
	out.TraceHash = st.TraceHash
	if sv != nil {
		out.V = &sim.Violation{Kind: sv.Kind, Site: "Bytes-adjacent-slices", Detail: sv.Detail}
		return out
	}
	for i, op := range all {
		if op.Panic != "" {
			out.V = &sim.Violation{Kind: "panic", Site: "Bytes-adjacent-slices", Detail: op.Panic}
			return out
		}
		if refs[i].Err == nil && !bytes.Equal(op.Out, refs[i].Out) {
			out.V = &sim.Violation{Kind: "output-differs", Site: "Bytes-adjacent-slices:" + op.MT,
				Detail: fmt.Sprintf("Bytes on a sub-slice of a shared array returned %q, the sequential call on a private copy returns %q (doc %s)", corpus.Short(op.Out, 80), corpus.Short(refs[i].Out, 80), docs[i].Name)}
			return out
		}
	}
	// the byte right after the last slice belongs to nobody's input
	if !bytes.Equal(arena[total:], before[total:]) {
		out.V = &sim.Violation{Kind: "wrote-outside-slice", Site: "Bytes:" + docs[len(docs)-1].MT,
			Detail: fmt.Sprintf("after all calls returned the bytes behind the last slice read %q instead of %q: a call wrote beyond len of the slice it was given and did not restore it", arena[total:], before[total:])}
		return out
	}
	return out
}

// c13Case: N client tasks use one registry with shared option structs at once.
func c13Case(env *Env, tape *sim.Tape) *CaseOut {
	if os.Getenv("VERIF_C13_MODE") == "extras" {
		return c13Extras(env, tape)
	}
	if tape.Draw(16) == 15 {
		return c13Default(env, tape)
	}
	out := &CaseOut{}
	opts := drawOptions(tape)
	before := opts.Clone()
	optsKey := opts.String()
	ntasks := 2 + tape.Draw(5)
	// the registry's site URL (the CLI's --url) changes how http(s) URLs are written
	siteURL := []string{"", "", "https://example.com/dir/", "http://example.com/"}[tape.Draw(4)]
	optsKey += " url=" + siteURL
	// "any number of goroutines": now and then far more calls are in flight than a handful
	mass := tape.Draw(48) == 47
	if mass {
		ntasks = 104 + tape.Draw(60)
	}
	stick := []int{0, 1, 9}[tape.Draw(3)]
	maxDoc := 8 << 10
	var tasks [][]*Op
	var all []*c13Op
	var middleOps []*Op
	hosts := hostDocs(env)
	for ti := 0; ti < ntasks; ti++ {
		nops := 1 + tape.Draw(3)
		if mass {
			nops = 1
		}
		var ops []*Op
		for oi := 0; oi < nops; oi++ {
			var di int
			switch {
			case mass:
				di = tape.Draw(len(ShortDocs()))
			case len(all) > 0 && tape.Draw(4) == 0:
				di = all[tape.Draw(len(all))].di // the same input from several tasks
			case tape.Draw(3) == 0:
				di = hosts[tape.Draw(len(hosts))]
			default:
				di = tape.Draw(len(env.Corpus))
			}
			doc := env.Corpus[di]
			if len(doc.Data) > maxDoc {
				di = tape.Draw(len(ShortDocs()))
				doc = env.Corpus[di]
			}
			entry := c13Entries[tape.Draw(len(c13Entries))]
			if mass {
				entry = []int{EWriter, EReader, EPlain}[tape.Draw(3)] // streams stay open while the others start
			}
			if entry == EDirect && opts.direct(doc.MT) == nil {
				entry = EPlain
			}
			op := &Op{Entry: entry, MT: doc.MT, In: doc.Data, UseBytes: tape.Draw(3) == 0}
			op.W = sim.NewSimWriter(nil)
			op.R = sim.NewSimReader(nil, doc.Data)
			op.R.Chunks = drawChunks(tape, len(doc.Data), 6)
			op.WriteChunks = drawChunks(tape, len(doc.Data), 6)
			op.ContentType = doc.MT
			op.RequestURI = "/x" + mtExt[doc.MT]
			if entry == EMiddleErr {
				op.RequestURI = fmt.Sprintf("/t%d/o%d/x%s", ti, len(ops), mtExt[doc.MT])
				middleOps = append(middleOps, op)
			}
			if entry == EReader {
				op.ReadBufs = []int{1 + tape.Draw(64), 1 + tape.Draw(256)}
			}
			if entry == EDirect {
				op.Direct = opts.direct(doc.MT)
			}
			ref := c13Reference(opts, optsKey, di, doc, siteURL)
			if entry == EMimetype {
				variant := tape.Draw(3) / 2 // mostly the registered spelling
				op.Mimetype = sharedMimetype(doc.MT, variant)
				if variant == 1 {
					ref = &plainRef{Err: minify.ErrNotExist}
				}
			}
			ops = append(ops, op)
			all = append(all, &c13Op{Op: op, di: di, ref: ref})
		}
		tasks = append(tasks, ops)
	}
	// the reference runs must not have touched the shared structs either (they use clones)
	m := NewRegistry(opts)
	m.URL = parseURL(siteURL)
	if mass {
		out.stat("probe_more_than_100_calls_in_flight", 1)
	}
	budget := 256
	for _, o := range all {
		budget += 8 * (o.ref.W + len(o.R.Chunks) + len(o.WriteChunks) + len(o.In)/32 + len(o.ref.Out)/32 + 16)
	}
	if len(middleOps) > 0 && tape.Draw(4) != 0 {
		// one handler value serves all these requests, as in a real server (a handler built per
		// request cannot show state that the handler keeps between requests)
		h := SharedMiddleware(m, middleOps)
		for _, op := range middleOps {
			op.SharedHandler = h
		}
		if len(middleOps) > 1 {
			out.stat("probe_one_middleware_handler_serving_overlapping_requests", 1)
		}
	}
	FlagLockWait = true
	sv, st := RunTasks(env.T, tape, m, tasks, stick, budget, false)
	FlagLockWait = false

	var ekey []any
	for _, o := range all {
		ekey = append(ekey, o.di, o.Entry)
		out.stat("calls_"+entryName(o.Entry), 1)
	}
	out.Key = HashOf(append(ekey, optsKey, st.TraceHash)...)
	out.Digest = HashOf(ekey...)
	out.TraceHash = st.TraceHash
	out.Nontrivial = st.MaxParked >= 2
	out.stat("sched_steps", int64(st.Steps))
	out.stat("sched_preemptions", int64(st.Preempts))
	out.stat("calls", int64(len(all)))
	out.stat("tasks", int64(ntasks))
	if st.MaxParked >= 2 {
		out.stat("probe_two_or_more_calls_in_flight", 1)
	}
	if opts.HTML.KeepConditionalComments {
		out.stat("probe_option_KeepConditionalComments", 1)
	}
	sample := map[string]any{"tasks": ntasks, "options": optsKey, "steps": st.Steps, "max_parked": st.MaxParked}
	var calls []string
	for _, o := range all {
		calls = append(calls, fmt.Sprintf("%s(%s %s)", entryName(o.Entry), o.MT, env.Corpus[o.di].Name))
	}
	sample["calls"] = calls
	out.Sample = sample

	fail := func(kind, site, detail string) *CaseOut {
		out.V = &sim.Violation{Kind: kind, Site: site, Detail: detail + fmt.Sprintf(" [tasks=%d options=%s calls=%v]", ntasks, optsKey, calls)}
		return out
	}
	if sv != nil {
		return fail(sv.Kind, sv.Site, sv.Detail)
	}
	for _, o := range all {
		site := entryName(o.Entry) + ":" + o.MT
		if o.Panic != "" {
			return fail("panic", site, o.Panic)
		}
		if !o.Finished {
			return fail("deadlock", site, "call never returned")
		}
		gotErr := o.Err
		if o.Entry == EWriter || o.Entry == ERespWriter {
			gotErr = o.CloseErr
		}
		if o.Entry == EMiddleErr {
			gotErr = o.MidErr
		}
		if errText(gotErr) != errText(o.ref.Err) {
			return fail("error-differs", site, fmt.Sprintf("concurrent call reported %q, sequential call %q [doc=%s]", errText(gotErr), errText(o.ref.Err), env.Corpus[o.di].Name))
		}
		if (o.Entry == ERespWriter || o.Entry == EMiddleErr) && len(o.In) == 0 {
			// a response without a body never reaches a minifier (no Write call starts one):
			// nothing to compare with the sequential plain call on an empty document
			continue
		}
		if o.ref.Err == nil && !bytes.Equal(o.Out, o.ref.Out) {
			return fail("output-differs", site, fmt.Sprintf("concurrent call returned %d bytes %q, sequential call %d bytes %q [doc=%s]",
				len(o.Out), corpus.Short(o.Out, 80), len(o.ref.Out), corpus.Short(o.ref.Out, 80), env.Corpus[o.di].Name))
		}
		out.Digest = HashOf(out.Digest, o.Out, errText(gotErr))
	}
	if st.Leak != "" {
		return fail("goroutine-left-blocked", "bubble", st.Leak)
	}
	for mt, vs := range sharedMimetypes {
		up := []byte(mt)
		for i := range up {
			if i%2 == 0 && up[i] >= 'a' && up[i] <= 'z' {
				up[i] -= 32
			}
		}
		if string(vs[0]) != mt || !bytes.Equal(vs[1], up) {
			w0, w1 := string(vs[0]), string(vs[1])
			delete(sharedMimetypes, mt)
			return fail("input-mutated", "MinifyMimetype", fmt.Sprintf("the mimetype slices handed to MinifyMimetype read %q / %q after the calls, they were %q / %q", w0, w1, mt, up))
		}
	}
	if !reflect.DeepEqual(before, opts) {
		return fail("options-mutated", "shared-option-struct", fmt.Sprintf("before: %s after: %s", before, opts))
	}
	return out
}

// c13Search runs random cases; every block of cases is followed by a digest of all
// package-level state of the module under test (oracle "no globals written"). When a digest
// changes, the block is re-run case by case to name the culprit call sequence.
func c13Search(s *Search) {
	g := loadGlobals()
	base := g.digest()
	s.Res.Stats["package_level_variables_digested"] = int64(len(g.names))
	const block = 256
	var pending []uint64
	check := func() {
		cur := g.digest()
		s.Res.Stats["package_state_digests_taken"]++
		if name := g.diff(base, cur); name != "" {
			// find the case: replay the block one case at a time
			prev := cur
			culprit, cname := uint64(0), name
			found := false
			for _, idx := range pending {
				s.F(s.Env, sim.NewTape(s.Env.Seed, s.Stream, idx))
				now := g.digest()
				if n := g.diff(prev, now); n != "" {
					culprit, cname, found = idx, n, true
					break
				}
				prev = now
			}
			if !found && len(pending) > 0 {
				culprit = pending[0]
			}
			tape := sim.NewTape(s.Env.Seed, s.Stream, culprit)
			s.F(s.Env, tape)
			s.Res.Violations = append(s.Res.Violations, Replay{Property: s.Env.Prop, Tier: s.Env.Tier, Seed: s.Env.Seed, Stream: s.Stream,
				Case: culprit, Tape: tape.Recorded(), OrigTape: tape.Used(), Engine: "libsim",
				Violation: sim.Violation{Kind: "package-state-mutated", Site: cname,
					Detail: "package-level variable " + cname + " of the module under test changed during minification (a minifier wrote through shared state, e.g. appended into the spare capacity of a package-level slice); first noticed for " + name}})
			base = g.digest()
		}
		pending = pending[:0]
	}
	for i := s.Base(); s.More(); i++ {
		if !s.Mine(int(i)) {
			continue
		}
		s.TryRandom(i)
		pending = append(pending, i)
		if len(pending) >= block {
			check()
		}
	}
	check()
}

func init() {
	props["C13"] = &propDef{Search: c13Search, Case: c13Case, Stream: "C13"}
}
