package lib

import (
	"bytes"
	"context"
	"errors"
	"fmt"
	"io"
	"os"
	"strings"
	"syscall"

	"github.com/tdewolff/minify/v2/verifsync"

	"verif/corpus"
	"verif/sim"
)

// SetWouldBlockSink connects the scheduler to the lock facade of the code under test.
func SetWouldBlockSink(s *sim.Sched) {
	if s == nil {
		return
	}
	verifsync.SetAborted(false)
	s.Waiters = verifsync.Waiting
	s.OnStop = func() { verifsync.SetAborted(true) }
}

// embedDoc wraps a css/js/json/svg document into an HTML host so that the I/O of the
// embedded minifier is the I/O under fault. ok=false when the document cannot be embedded
// verbatim.
func embedDoc(d corpus.Doc) (mt string, data []byte, ok bool) {
	low := bytes.ToLower(d.Data)
	switch d.MT {
	case "text/css":
		if bytes.Contains(low, []byte("</style")) {
			return
		}
		if len(d.Data)%2 == 1 && !bytes.ContainsAny(d.Data, "<&]") {
			// two levels: HTML > inline SVG > CSS
			return "text/html", []byte("<p>a</p><svg width=\"1\"><style>" + string(d.Data) + "</style><path d=\"M0 0\"/></svg><p>b</p>"), true
		}
		return "text/html", []byte("<p>a</p><style>" + string(d.Data) + "</style><p>b</p>"), true
	case "application/javascript":
		if bytes.Contains(low, []byte("</script")) || bytes.Contains(low, []byte("<!--")) {
			return
		}
		return "text/html", []byte("<p>a</p><script>" + string(d.Data) + "</script><p>b</p>"), true
	case "application/json":
		if bytes.Contains(low, []byte("</script")) || bytes.Contains(low, []byte("<!--")) {
			return
		}
		return "text/html", []byte("<script type=\"application/ld+json\">" + string(d.Data) + "</script><p>b</p>"), true
	case "image/svg+xml":
		if !bytes.HasPrefix(low, []byte("<svg")) {
			return
		}
		return "text/html", []byte("<p>a</p>" + string(d.Data) + "<p>b</p>"), true
	}
	return
}

type c14Ref struct {
	W   int // Write calls of the fault-free run, including the final zero-length probe
	Out []byte
	Err error
}

var c14RefCache = map[string]*c14Ref{}

func c14Reference(mt string, data []byte, key string) *c14Ref {
	if r, ok := c14RefCache[key]; ok {
		return r
	}
	m := NewRegistry(DefaultOptions())
	op := &Op{Entry: EPlain, MT: mt, In: data, R: sim.NewSimReader(nil, data), W: sim.NewSimWriter(nil)}
	op.Exec(nil, m)
	r := &c14Ref{W: op.W.Calls, Out: op.Out, Err: op.Err}
	if op.Panic != "" {
		r.Err = errors.New("panic: " + op.Panic)
	}
	if len(c14RefCache) > 4096 {
		c14RefCache = map[string]*c14Ref{}
	}
	c14RefCache[key] = r
	return r
}

var c14Entries = []int{EPlain, EMatch, EWriter, EReader, ERespWriter, EMiddleErr}

const (
	fkNone = iota
	fkWrite
	fkWriteShort
	fkRead
	fkReadData
	fkBoth
	nFaultKinds
)

var fkNames = [...]string{"none", "writer(0,err)", "writer(short,err)", "reader(0,err)", "reader(n>0,err)", "both"}

// c14Case: tape layout (fixed prefix, so that the enumerator can write it directly):
// [doc, embed, entry, faultKind, kWrite, kRead, useBytes, eofWithData, stick, chunks…, schedule…]
func c14Case(env *Env, tape *sim.Tape) *CaseOut {
	out := &CaseOut{}
	di := tape.Draw(len(env.Corpus))
	doc := env.Corpus[di]
	embed := tape.Draw(2)
	entry := c14Entries[tape.Draw(len(c14Entries))]
	fk := tape.Draw(nFaultKinds)
	kwRaw := tape.Draw(1 << 30)
	krRaw := tape.Draw(1 << 30)
	useBytes := tape.Draw(2) == 1
	eofWithData := tape.Draw(2) == 1
	stick := []int{0, 1, 9}[tape.Draw(3)]
	truncOn := tape.Draw(4) == 3
	truncRaw := tape.Draw(1 << 30)
	// one case in 1024 goes through an external-command minifier (AddCmd), fed through stdin /
	// stdout or through the $in / $out temporary files; a real process is spawned, so these
	// cases use the plain call only (no bubble) and are kept rare
	cmdRaw := tape.Draw(4096)
	if cmdRaw%1024 == 1023 && os.Getenv("VERIF_NO_CMD") == "" {
		doc = corpus.Doc{MT: []string{MTCmd, MTCmdIn, MTCmdOut, MTCmdFile}[cmdRaw/1024], Name: "builtin/cmd", Src: "builtin",
			Data: []byte("an external command copies these bytes, all of them, to its output")[:1+truncRaw%64]}
		if truncRaw/64%6 == 5 {
			// more output than a pipe buffer holds (64 KiB) plus a few copy rounds: a failing
			// writer leaves the command blocked on its output unless somebody drains or closes it
			doc.Data = bytes.Repeat([]byte("0123456789abcdef"), (100<<10+truncRaw/512%(200<<10))/16)
			out.stat("probe_external_command_large_output", 1)
		}
		di = len(env.Corpus) + cmdRaw/1024
		if cmdRaw/1024 == 0 && truncRaw%3 == 0 {
			// the well-behaved filter: reports a failed write or a short input by its exit status
			doc.MT = MTCmdStream
			doc.Data = append([]byte(fmt.Sprintf("%d\n", len(doc.Data))), doc.Data...)
			di = len(env.Corpus) + 4
			out.stat("probe_external_command_exiting_nonzero_on_io_failure", 1)
		}
		embed, truncOn = 0, false
		if entry != EMatch {
			entry = EPlain
		}
		out.stat("probe_external_command_minifier", 1)
	}
	isCmd := strings.HasPrefix(doc.MT, MTCmd)

	// truncated documents are inputs too (the stream ended early): the fault positions of a
	// truncated document are a different set of error paths
	trunc := -1
	if truncOn && len(doc.Data) > 1 {
		trunc = 1 + truncRaw%(len(doc.Data)-1)
		doc.Data = doc.Data[:trunc]
	}
	mt, data := doc.MT, doc.Data
	if embed == 1 {
		if emt, edata, ok := embedDoc(doc); ok {
			mt, data = emt, edata
		} else {
			embed = 0
		}
	}
	// parameters on the media type of the call itself (charset, and inline=1, which the
	// minifiers read): the error contract does not depend on them
	if cmdRaw%16 == 5 && !isCmd && embed == 0 {
		// (what a server puts behind a Content-Type: other encodings, quoted values, several
		// parameters)
		mt += []string{"; charset=utf-8", ";inline=1", "; inline=1; charset=utf-8", "; charset=utf-16", "; charset=UTF-16LE", "; charset=iso-8859-1",
			"; charset=\"utf-32\"", "; charset=windows-1252", "; version=1.0; charset=us-ascii", "; charset=ucs-2; inline=1"}[cmdRaw/16%10]
		out.stat("probe_media_type_parameters_on_the_call", 1)
	}
	if cmdRaw%64 == 9 && !isCmd && embed == 0 && doc.MT != MTEarly && (entry == EPlain || entry == EWriter || entry == EReader) {
		// a media type nobody registered: the call fails with the not-exist error and must not
		// touch the destination at all - whatever the destination would have answered (the
		// HTTP entry points pass such responses through by design and Match answers nil: not
		// part of this variant)
		mt = []string{"image/png", "application/octet-stream; name=x", "text/x-nobody"}[cmdRaw/64%3]
		out.stat("probe_unregistered_media_type", 1)
	}
	refKey := fmt.Sprintf("%d/%d/%d/%s", di, embed, trunc, mt)
	if isCmd {
		refKey += fmt.Sprintf("/cmd%d", len(data))
	}
	ref := c14Reference(mt, data, refKey)
	R := len(data)
	kw, kr := -1, -1
	if fk == fkWrite || fk == fkWriteShort || fk == fkBoth {
		kw = 0
		if ref.W > 0 { // ref.W >= 1 whenever the minifier got as far as its probe
			kw = kwRaw % ref.W
		}
	}
	if fk == fkRead || fk == fkReadData || fk == fkBoth {
		kr = krRaw % (R + 1)
		useBytes = false
	}
	if doc.MT == MTEarly && kr >= 0 {
		// the early-returning stub legitimately never sees a failure beyond the bytes it needs
		kr = -1
		if fk == fkBoth {
			fk = fkWrite
		} else {
			fk = fkNone
		}
	}
	if entry == EReader && kw >= 0 {
		// the wrapper's writer is its own pipe: no caller-supplied writer to fail
		kw = -1
		if fk == fkBoth {
			fk = fkRead
		} else {
			fk = fkNone
		}
	}
	if (entry == EWriter || entry == ERespWriter || entry == EMiddleErr) && kr >= 0 {
		// the wrapper's reader is its own pipe: no caller-supplied reader to fail
		kr = -1
		if fk == fkBoth {
			fk = fkWrite
		} else {
			fk = fkNone
		}
	}

	op := &Op{Entry: entry, MT: mt, In: data, UseBytes: useBytes}
	op.W = sim.NewSimWriter(nil)
	op.R = sim.NewSimReader(nil, data)
	op.R.EOFWithData = eofWithData
	op.R.Chunks = drawChunks(tape, R, 16)
	// which error value the failing writer returns: mostly an opaque one; sometimes one of
	// the sentinels a real sink hands out (an ssh channel or a pipe whose reader was closed
	// with io.EOF returns the bare io.EOF from Write) - for a WRITER none of them means
	// "done", every one is a failure that has to surface
	writeErr := sim.ErrInjectedWrite
	if kw >= 0 {
		switch kwRaw / 7 % 18 {
		case 12:
			writeErr = sim.ErrInjectedEPIPE
		case 13:
			writeErr = sim.ErrInjectedECONNRESET
		case 14:
			writeErr = context.Canceled
		case 15:
			writeErr = os.ErrDeadlineExceeded
		case 16:
			writeErr = syscall.EPIPE
		case 7:
			writeErr = io.EOF
		case 8:
			writeErr = sim.ErrInjectedWriteEOF
		case 9:
			writeErr = io.ErrUnexpectedEOF
		case 10:
			writeErr = io.ErrShortWrite
		case 11:
			writeErr = io.ErrClosedPipe
		}
		if writeErr != sim.ErrInjectedWrite {
			out.stat("probe_writer_error_is_a_std_sentinel", 1)
		}
		op.W.FailAt, op.W.FailErr, op.W.Short = kw, writeErr, fk == fkWriteShort
	}
	readErr := sim.ErrInjectedRead
	if kr >= 0 {
		switch krRaw / 3 % 12 {
		case 3, 7:
			readErr = sim.ErrInjectedReadEOF
			out.stat("probe_reader_error_wrapping_eof", 1)
		case 8:
			// what a source returns that ended before its announced length (a body shorter
			// than its Content-Length, a truncated gzip stream): a failure, not an end
			readErr = io.ErrUnexpectedEOF
			out.stat("probe_reader_error_is_a_std_sentinel", 1)
		case 9:
			readErr = os.ErrDeadlineExceeded
			out.stat("probe_reader_error_is_a_std_sentinel", 1)
		case 10:
			readErr = io.ErrClosedPipe
			out.stat("probe_reader_error_is_a_std_sentinel", 1)
		case 11:
			readErr = sim.ErrInjectedECONNRESET
			out.stat("probe_reader_error_is_a_std_sentinel", 1)
		}
		op.R.FailAt, op.R.FailErr, op.R.FailWithData = kr, readErr, fk == fkReadData
	}
	if kwRaw/11%4 == 3 {
		op.WriterKind = 1 + int(kwRaw/44%3)
		out.stat("probe_writer_with_extra_methods", 1)
	}
	if !useBytes {
		op.ReaderKind = krRaw / 11 % 4 % 3 // plain, bufio, MultiReader
		if op.ReaderKind != 0 {
			out.stat("probe_reader_wrapped_bufio_or_multireader", 1)
		}
	}
	switch entry {
	case EWriter, ERespWriter, EMiddleErr:
		op.WriteChunks = drawChunks(tape, R, 8)
		op.ContentType = mt
		op.Method = []string{"", "GET", "HEAD", "POST"}[kwRaw/5%4]
		op.EarlyHints = kwRaw/3%8 == 7
		if kwRaw/13%4 == 3 {
			// the request is already cancelled (a timeout in front of the middleware): a
			// failure to deliver the response is still reported
			op.CtxCancelled = true
			out.stat("probe_request_context_cancelled", 1)
		}
	case EReader:
		n := tape.Draw(4)
		for i := 0; i < n; i++ {
			op.ReadBufs = append(op.ReadBufs, 1+tape.Draw(64))
		}
	}

	m := NewRegistry(DefaultOptions())
	if krRaw/7%8 == 5 {
		// not the first call on this registry and these minifier objects: a fault-free call
		// on another document of the same type goes first (state carried between documents)
		prev := env.Corpus[(di+1)%len(env.Corpus)]
		warm := &Op{Entry: EPlain, MT: mt, In: prev.Data, R: sim.NewSimReader(nil, prev.Data), W: sim.NewSimWriter(nil)}
		warm.Exec(nil, m)
		out.stat("probe_second_call_on_same_registry", 1)
	}
	CurrentSite = fmt.Sprintf("%s:%s:%s", entryNames[entry], mt, fkNames[fk]) // what the hang watchdog reports
	defer func() { CurrentSite = "" }()
	if spools := doc.MT == MTCmdIn || doc.MT == MTCmdFile; (spools && krRaw/5%2 == 1) || (!isCmd && len(data) <= 4096 && krRaw/5%64 == 37) {
		// a long-running process: 140 calls whose reader fails went before this one (each of
		// them is judged by its own case elsewhere; here they are history). Whatever a failed
		// call holds on to - a slot, a descriptor, a pooled buffer - the call after them still
		// has to return, and with the same result as on a fresh registry. For commands only the
		// ones that spool their input to a file: the reader fails before anything is spawned.
		for i := 0; i < 140; i++ {
			fr := sim.NewSimReader(nil, data)
			fr.FailAt, fr.FailErr = i%(len(data)+1), sim.ErrInjectedRead
			pre := &Op{Entry: EPlain, MT: mt, In: data, R: fr, W: sim.NewSimWriter(nil)}
			pre.Exec(nil, m)
		}
		out.stat("probe_call_after_140_failed_calls", 1)
	}
	var sv *sim.Violation
	var st RunStats
	if entry == EPlain || entry == EMatch {
		op.Exec(nil, m)
	} else {
		budget := 8*(ref.W+len(op.WriteChunks)+len(op.R.Chunks)+len(op.ReadBufs)+len(ref.Out)/16+R/16) + 256
		sv, st = RunTasks(env.T, tape, m, [][]*Op{{op}}, stick, budget, false)
		out.stat("sched_steps", int64(st.Steps))
	}

	fired := (op.W != nil && op.W.Fired) || op.R.Fired
	site := fmt.Sprintf("%s:%s:%s", entryNames[entry], mt, fkNames[fk])
	if embed == 1 {
		site += ":embedded(" + doc.MT + ")"
	}
	out.Key = HashOf(di, embed, trunc, entry, fk, kw, kr, useBytes, st.TraceHash)
	out.TraceHash = st.TraceHash
	out.Digest = HashOf(op.Out, errText(op.Err), errText(op.CloseErr))
	if isCmd && fired {
		// a real child process: which of two injected failures it meets first (its stdin
		// closed, its stdout gone) and how much it had written by then is decided by the
		// operating system, not by the tape; the property asks for a non-nil error only, and
		// only that is part of what must repeat from process to process
		out.Digest = HashOf("cmd", op.Err != nil, op.CloseErr != nil)
	}
	if trunc >= 0 {
		out.stat("probe_truncated_document", 1)
	}
	out.Nontrivial = fired
	out.stat("entry_"+entryNames[entry], 1)
	if fired {
		if op.W.Fired {
			out.stat("fault_writer_fired", 1)
			if op.W.Short {
				out.stat("fault_writer_short_fired", 1)
			}
			if kw == ref.W-1 {
				out.stat("probe_fault_on_final_probe_write", 1)
			}
		}
		if op.R.Fired {
			out.stat("fault_reader_fired", 1)
			if op.R.FailWithData && kr > 0 {
				out.stat("probe_reader_n>0_with_err", 1)
			}
		}
		if embed == 1 {
			out.stat("probe_fault_inside_embedded_minifier", 1)
		}
	} else {
		out.stat("fault_free_runs", 1)
	}
	out.Sample = map[string]any{"doc": doc.Name, "media_type": mt, "embedded": embed == 1, "entry": entryNames[entry], "fault": fkNames[fk],
		"writer_fails_from_call": kw, "reader_fails_after_bytes": kr, "write_calls_fault_free": ref.W, "input_bytes": R,
		"fired": fired, "truncated_at": trunc, "input": corpus.Short(data, 80)}

	fail := func(kind, detail string) *CaseOut {
		out.V = &sim.Violation{Kind: kind, Site: site, Detail: detail + fmt.Sprintf(" [doc=%s truncated_at=%d kw=%d kr=%d W=%d R=%d input=%q]", doc.Name, trunc, kw, kr, ref.W, R, corpus.Short(data, 120))}
		return out
	}
	if op.Panic != "" {
		return fail("panic", op.Panic)
	}
	if sv != nil {
		switch sv.Kind {
		case "deadlock", "no-progress":
			return fail(sv.Kind, "the call did not return: "+sv.Detail)
		default:
			return fail(sv.Kind, sv.Detail)
		}
	}
	if !op.Finished {
		return fail("deadlock", "the entry point never returned")
	}
	if st.Leak != "" && (entry == EWriter || entry == ERespWriter || entry == EMiddleErr) {
		// Close returned but a goroutine of the wrapper is still blocked
		return fail("goroutine-left-blocked", st.Leak)
	}

	if !fired && R == 0 && (entry == ERespWriter || entry == EMiddleErr) {
		// an HTTP handler that writes no body never invokes a minifier: nothing to compare
		return out
	}
	if !fired {
		// strict oracle of the fault-free batch: same bytes and same error as the reference
		if entry == EMiddleErr && op.MidErrSet {
			op.Err = op.MidErr
		}
		gotErr := op.Err
		if entry == EWriter || entry == ERespWriter {
			gotErr = op.CloseErr
			for _, e := range op.WriteErrs {
				if !errors.Is(e, io.ErrClosedPipe) {
					gotErr = e
				}
			}
		}
		if (gotErr == nil) != (ref.Err == nil) {
			return fail("faultfree-error-differs", fmt.Sprintf("fault-free run: error %v, reference error %v", gotErr, ref.Err))
		}
		if ref.Err == nil && !bytes.Equal(op.Out, ref.Out) {
			return fail("faultfree-output-differs", fmt.Sprintf("fault-free run: %d bytes, reference %d bytes", len(op.Out), len(ref.Out)))
		}
		return out
	}

	// faulted batch: the error must surface
	es := op.anyErr()
	if len(es) == 0 {
		return fail("error-swallowed", "the injected I/O error fired but every return value was nil (success reported)")
	}
	if entry == EReader && op.GotEOF {
		return fail("error-swallowed", "reader wrapper: consumer got a clean io.EOF although the underlying reader failed")
	}
	if ref.Err == nil && !isCmd {
		// (for an external command any non-nil error will do: a writer that fails makes the
		// child die of SIGPIPE, and os/exec reports the exit status before the copy error)
		ok := false
		if op.W.Fired && op.sawErr(writeErr) {
			ok = true
		}
		if op.R.Fired && op.sawErr(readErr) {
			ok = true
		}
		if !ok {
			var ss []string
			for _, e := range es {
				ss = append(ss, errText(e))
			}
			return fail("wrong-error", "the injected error fired but the call reported only: "+strings.Join(ss, " | "))
		}
	}
	return out
}

// c14Search enumerates, for every document of this shard, every writer-fault position and
// every (or, for long inputs, a spread of) reader-fault positions through the plain call,
// plus a spread through the wrappers and through one level of embedding; then spends the
// remaining budget on random cases.
func c14Search(s *Search) {
	env := s.Env
	quick := env.Tier != "thorough"
	maxDoc := 4096
	if !quick {
		maxDoc = 1 << 20
	}
	full, sampled := int64(0), int64(0)
	idx := uint64(0)
	// run builds the fixed tape prefix [doc, embed, entry, fault, kw, kr, useBytes, eof, stick,
	// truncOn, truncPos] followed by the chunk/schedule draws in rest.
	truncOn, truncPos := uint64(0), uint64(0)
	run := func(di, embed, entry, fk, kw, kr, useBytes, eof, stick uint64, rest ...uint64) *CaseOut {
		idx++
		vals := append([]uint64{di, embed, entry, fk, kw, kr, useBytes, eof, stick, truncOn, truncPos, 0}, rest...)
		return s.Try(idx, sim.ReplayTape(vals))
	}
	entryIdx := func(e int) uint64 {
		for i, x := range c14Entries {
			if x == e {
				return uint64(i)
			}
		}
		return 0
	}
	ndoc := 0
	for di, doc := range env.Corpus {
		if os.Getenv("VERIF_RANDOM_ONLY") != "" {
			break
		}
		if !s.Mine(di) || len(doc.Data) > maxDoc {
			continue
		}
		if !s.More() {
			s.Res.Notes = append(s.Res.Notes, fmt.Sprintf("budget exhausted after %d documents of this shard", ndoc))
			break
		}
		ndoc++
		for embed := uint64(0); embed < 2; embed++ {
			mt, data := doc.MT, doc.Data
			if embed == 1 {
				var ok bool
				if mt, data, ok = embedDoc(doc); !ok {
					continue
				}
			}
			ref := c14Reference(mt, data, fmt.Sprintf("%d/%d", di, embed))
			R, W := len(data), ref.W
			complete := true
			// control: fault-free through every entry
			for e := range c14Entries {
				run(uint64(di), embed, uint64(e), fkNone, 0, 0, uint64(e%2), uint64(e/2%2), uint64(e%3), uint64(e%4))
			}
			// truncated variants of short documents: a spread of cut points (biased to just
			// after markup characters), every writer position (strided) at each
			if embed == 0 && len(doc.Data) > 1 && len(doc.Data) <= 512 {
				cuts := truncationPoints(doc.Data, 6)
				for _, c := range cuts {
					truncOn, truncPos = 3, uint64(c-1)
					tref := c14Reference(doc.MT, doc.Data[:c], fmt.Sprintf("%d/%d/%d", di, 0, c))
					st := 1
					if tref.W > 12 {
						st = (tref.W + 11) / 12
					}
					for k := 0; k < tref.W; k += st {
						run(uint64(di), 0, entryIdx(EPlain), fkWrite+uint64(k%2), uint64(k), 0, 0, 0, 0, uint64(k%3))
					}
					if tref.W > 0 {
						run(uint64(di), 0, entryIdx(EPlain), fkWrite, uint64(tref.W-1), 0, 0, 0, 0, 0)
						run(uint64(di), 0, entryIdx(EWriter), fkWrite, uint64(tref.W-1), 0, 0, 0, 1, 2, 1, 1)
					}
					run(uint64(di), 0, entryIdx(EPlain), fkRead, 0, uint64(c/2), 0, 0, 0, 1)
				}
				truncOn, truncPos = 0, 0
			}
			// every writer position, plain call, both variants
			wstep := 1
			if quick && W > 48 {
				wstep, complete = (W+47)/48, false
			} else if W > 2000 {
				wstep, complete = (W+1999)/2000, false
			}
			for k := 0; k < W; k += wstep {
				run(uint64(di), embed, entryIdx(EPlain), fkWrite, uint64(k), 0, uint64(k%2), 0, 0, uint64(k%3))
				run(uint64(di), embed, entryIdx(EPlain), fkWriteShort, uint64(k), 0, uint64(k%2), 0, 0, uint64(k%3))
			}
			if wstep > 1 && W > 0 { // the final probe position always
				run(uint64(di), embed, entryIdx(EPlain), fkWrite, uint64(W-1), 0, 0, 0, 0, 0)
			}
			// every reader position, plain call, both variants
			rstep := 1
			if quick && R > 64 {
				rstep, complete = (R+63)/64, false
			} else if R > 256 {
				rstep, complete = (R+255)/256, false
			}
			for k := 0; k <= R; k += rstep {
				run(uint64(di), embed, entryIdx(EPlain), fkRead, 0, uint64(k), 0, uint64(k%2), 0, uint64(k%4))
				run(uint64(di), embed, entryIdx(EPlain), fkReadData, 0, uint64(k), 0, 0, 0, uint64(1+k%3))
			}
			if rstep > 1 {
				for k := R - 8; k <= R; k++ {
					if k >= 0 {
						run(uint64(di), embed, entryIdx(EPlain), fkRead, 0, uint64(k), 0, 0, 0, 0)
					}
				}
			}
			// wrappers: a spread of positions (all of them for short outputs)
			ws := 1
			if W > 12 {
				ws = (W + 11) / 12
			}
			if quick && W > 4 {
				ws = (W + 3) / 4
			}
			for k := 0; k < W; k += ws {
				for _, e := range []int{EWriter, ERespWriter, EMiddleErr, EMatch} {
					run(uint64(di), embed, entryIdx(e), fkWrite+uint64(k%2), uint64(k), 0, 0, 0, uint64(k%3), uint64(k%4), uint64(k), uint64(k+1), uint64(k/2))
				}
			}
			if W > 0 {
				for _, e := range []int{EWriter, ERespWriter, EMiddleErr} {
					run(uint64(di), embed, entryIdx(e), fkWrite, uint64(W-1), 0, 0, 0, 1, 2, 3, 1, 2)
				}
			}
			rs := 1
			if R > 12 {
				rs = (R + 11) / 12
			}
			if quick && R > 4 {
				rs = (R + 3) / 4
			}
			for k := 0; k <= R; k += rs {
				run(uint64(di), embed, entryIdx(EReader), fkRead+uint64(k%2), 0, uint64(k), 0, uint64(k%2), uint64(k%3), uint64(k%4), uint64(k), uint64(k+1), uint64(k/2))
			}
			// both at once
			for j := 0; j < 3; j++ {
				run(uint64(di), embed, entryIdx(EPlain), fkBoth, uint64(j*7+W/2), uint64(j*5+R/2), 0, 0, 0, uint64(j))
			}
			if complete {
				full++
			} else {
				sampled++
			}
		}
	}
	s.Res.Stats["inputs_all_positions_enumerated"] += full
	s.Res.Stats["inputs_positions_sampled"] += sampled
	s.Res.Exhaustive = sampled == 0 && s.More()
	// random cases with the remaining budget (fault positions, chunkings and schedules drawn)
	for i := s.Base(); s.More(); i++ {
		if !s.Mine(int(i)) {
			continue
		}
		s.TryRandom(i)
		s.Res.Stats["random_cases"]++
	}
}

func init() {
	props["C14"] = &propDef{Search: c14Search, Case: c14Case, Stream: "C14"}
}

// truncationPoints picks up to n cut positions in (0,len): preferably just after markup
// characters (inside tags, attribute values, strings, comments), else evenly spread.
func truncationPoints(b []byte, n int) []int {
	var pref []int
	for i := 1; i < len(b); i++ {
		switch b[i-1] {
		case '<', '>', '"', '\'', '=', '{', '(', '[', ':', '/', '!', '-', '?':
			pref = append(pref, i)
		}
	}
	var out []int
	seen := map[int]bool{}
	add := func(p int) {
		if p > 0 && p < len(b) && !seen[p] {
			seen[p] = true
			out = append(out, p)
		}
	}
	for i := 0; i < n/2+1 && len(pref) > 0; i++ {
		add(pref[(i*len(pref))/(n/2+1)])
	}
	for i := 1; len(out) < n && i <= n; i++ {
		add(i * len(b) / (n + 1))
	}
	return out
}
