package lib

import (
	"bufio"
	"bytes"
	"errors"
	"fmt"
	"io"
	"net/http"
	"os"
	"os/exec"
	"os/signal"
	"regexp"
	"strconv"
	"strings"
	"syscall"

	"github.com/tdewolff/minify/v2"

	"verif/sim"
)

// C15: a sequential stateful object against a reference model, over seeded operation
// histories. There is no schedule or fault in this property; it is the model-based half of
// the technique only (DESIGN §3 C15).

// the last four keys can never be hit under the documented rules (a call's type/subtype is
// trimmed and cut at the first ';'): registering them must not change any dispatch
var c15Literals = []string{"text/css", "text/x", "a/b", "A/B", "text/css+x", "application/json", "application/ld+json", "text/javascript", "image/svg+xml", "text/html",
	"text/html ", " text/css", "text/x;q=1", "a/b "}
var c15Patterns = []string{`^text/`, `css$`, `.*`, `[/+]json$`, `^text/css$`, `^(application|text)/(x-)?javascript$`, `(?i)^TEXT/`, `/x`, `^a/b$`, `\+xml$`, `^module$`, `x`}
var c15Bases = append(append([]string{}, c15Literals[:10]...), "text/plain", "text/y", "application/x+json", "a/bc", "TEXT/CSS", "module", "application/xhtml+xml", "b/a")
var c15Params = []string{"charset=utf-8", "q=0.8", "version=2", "inline=1", "x", "charset=UTF-8", "Q=1", `charset="utf-8"`, `Title="Ab"`}

// the reference model, written from the doc comments of Add*, Match and Minify
type c15Model struct {
	literal  map[string]int
	patterns []c15Pat
}

type c15Pat struct {
	re *regexp.Regexp
	id int
}

func (md *c15Model) lookup(mimetype string) (id int, how string, ok bool) {
	if id, ok := md.literal[mimetype]; ok {
		return id, mimetype, true
	}
	for _, p := range md.patterns {
		if p.re.MatchString(mimetype) {
			return p.id, p.re.String(), true
		}
	}
	return 0, mimetype, false
}

// modelSplit splits a well-formed media type string `type/subtype( *; *k( *= *v)?)*` with
// optional surrounding spaces.
func modelSplit(s string) (string, map[string]string) {
	s = strings.Trim(s, " ")
	parts := strings.Split(s, ";")
	mt := strings.Trim(parts[0], " ")
	if len(parts) == 1 {
		return mt, nil
	}
	params := map[string]string{}
	for _, p := range parts[1:] {
		k, v, _ := strings.Cut(p, "=")
		params[strings.Trim(k, " ")] = strings.Trim(v, " ")
	}
	return mt, params
}

func paramsEqual(a, b map[string]string) bool {
	if len(a) != len(b) {
		return false
	}
	for k, v := range a {
		if w, ok := b[k]; !ok || w != v {
			return false
		}
	}
	return true
}

type c15Rec struct {
	id     int
	params map[string]string
}

// HelperMain makes the test binary usable as an external "minifier" command for
// AddCmd: VERIF_HELPER=<id> copies stdin (or the file named by -in) to stdout (or -out)
// behind the marker "<id>:".
func HelperMain() {
	id := os.Getenv("VERIF_HELPER")
	if id == "" {
		return
	}
	var in io.Reader = os.Stdin
	var out io.Writer = os.Stdout
	args := os.Args[1:]
	for i := 0; i+1 < len(args); i++ {
		switch args[i] {
		case "-in":
			f, err := os.Open(args[i+1])
			if err != nil {
				fmt.Fprintln(os.Stderr, err)
				os.Exit(3)
			}
			defer f.Close()
			in = f
		case "-out":
			f, err := os.Create(args[i+1])
			if err != nil {
				fmt.Fprintln(os.Stderr, err)
				os.Exit(3)
			}
			defer f.Close()
			out = f
		}
	}
	if os.Getenv("VERIF_HELPER_FAIL") != "" {
		fmt.Fprintln(os.Stderr, "helper: asked to fail")
		os.Exit(4)
	}
	if len(args) > 0 && args[len(args)-1] == "-stream" {
		helperStream(id)
	}
	b, _ := io.ReadAll(in)
	fmt.Fprintf(out, "%s:%s", id, b)
	if f, ok := out.(*os.File); ok && f != os.Stdout {
		f.Close()
	}
	os.Exit(0)
}

// helperStream: the input starts with a line holding the number of bytes that follow; they
// are copied to stdout in pieces as they arrive. A failing write or an input that ends early
// is reported on stderr and by the exit status, as a well-behaved filter does.
func helperStream(id string) {
	signal.Ignore(syscall.SIGPIPE)
	in := bufio.NewReader(os.Stdin)
	line, err := in.ReadString('\n')
	want, perr := strconv.Atoi(strings.TrimSpace(line))
	if err != nil || perr != nil {
		fmt.Fprintln(os.Stderr, "helper: no length line")
		os.Exit(6)
	}
	if _, err := fmt.Fprintf(os.Stdout, "%s:", id); err != nil {
		fmt.Fprintln(os.Stderr, "helper: write:", err)
		os.Exit(5)
	}
	buf := make([]byte, 4096)
	got := 0
	for {
		n, rerr := in.Read(buf)
		if n > 0 {
			got += n
			if _, werr := os.Stdout.Write(buf[:n]); werr != nil {
				fmt.Fprintln(os.Stderr, "helper: write:", werr)
				os.Exit(5)
			}
		}
		if rerr != nil {
			break
		}
	}
	if got < want {
		fmt.Fprintf(os.Stderr, "helper: input ended after %d of %d bytes\n", got, want)
		os.Exit(6)
	}
	os.Exit(0)
}

func helperCmdArgs(id int, args ...string) *exec.Cmd {
	cmd := exec.Command(os.Args[0], args...)
	cmd.Env = append(os.Environ(), fmt.Sprintf("VERIF_HELPER=s%d", id))
	return cmd
}

func helperCmd(id int, fileMode bool) *exec.Cmd {
	var cmd *exec.Cmd
	if fileMode {
		cmd = exec.Command(os.Args[0], "-in", "$in.txt", "-out", "$out.txt")
	} else {
		cmd = exec.Command(os.Args[0])
	}
	cmd.Env = append(os.Environ(), fmt.Sprintf("VERIF_HELPER=s%d", id))
	return cmd
}

func c15Case(env *Env, tape *sim.Tape) *CaseOut {
	out := &CaseOut{}
	m := minify.New()
	md := &c15Model{literal: map[string]int{}}
	var rec []c15Rec
	nextID := 0
	useCmd := tape.Draw(12) == 0
	cmdCalls := 0
	var hist []string

	// some minifiers forward to a type nobody registered and hand the registry's own not-exist
	// error back: the call was served (by them), it failed, and nobody else is asked
	forwarder := map[int]bool{}
	stub := func(id int) minify.MinifierFunc {
		if tape.Draw(8) == 0 {
			forwarder[id] = true
		}
		return func(_ *minify.M, w io.Writer, r io.Reader, params map[string]string) error {
			rec = append(rec, c15Rec{id, params})
			if forwarder[id] {
				return minify.ErrNotExist
			}
			b, err := io.ReadAll(r)
			if err != nil {
				return err
			}
			_, err = fmt.Fprintf(w, "s%d:%s", id, b)
			return err
		}
	}
	type stubT struct{ f minify.MinifierFunc }
	register := func() {
		id := nextID
		nextID++
		kind := tape.Draw(4)
		if useCmd && tape.Draw(3) == 0 {
			kind = 4 + tape.Draw(2)
		}
		switch kind {
		case 0, 1:
			lit := c15Literals[tape.Draw(len(c15Literals))]
			if kind == 0 {
				m.AddFunc(lit, stub(id))
				hist = append(hist, fmt.Sprintf("AddFunc(%q,s%d)", lit, id))
			} else {
				m.Add(lit, stub(id))
				hist = append(hist, fmt.Sprintf("Add(%q,s%d)", lit, id))
			}
			md.literal[lit] = id
		case 2, 3:
			ps := c15Patterns[tape.Draw(len(c15Patterns))]
			re := regexp.MustCompile(ps)
			if kind == 2 {
				m.AddFuncRegexp(re, stub(id))
				hist = append(hist, fmt.Sprintf("AddFuncRegexp(%q,s%d)", ps, id))
			} else {
				m.AddRegexp(re, stub(id))
				hist = append(hist, fmt.Sprintf("AddRegexp(%q,s%d)", ps, id))
			}
			md.patterns = append(md.patterns, c15Pat{re, id})
		case 4:
			lit := c15Literals[tape.Draw(len(c15Literals))]
			m.AddCmd(lit, helperCmd(id, tape.Draw(2) == 1))
			hist = append(hist, fmt.Sprintf("AddCmd(%q,s%d)", lit, id))
			md.literal[lit] = id
		case 5:
			ps := c15Patterns[tape.Draw(len(c15Patterns))]
			re := regexp.MustCompile(ps)
			m.AddCmdRegexp(re, helperCmd(id, tape.Draw(2) == 1))
			hist = append(hist, fmt.Sprintf("AddCmdRegexp(%q,s%d)", ps, id))
			md.patterns = append(md.patterns, c15Pat{re, id})
		}
	}
	isCmd := map[int]bool{}
	_ = isCmd

	drawMediatype := func() (s string, wellFormed bool) {
		base := c15Bases[tape.Draw(len(c15Bases))]
		shape := tape.Draw(10)
		sp := func() string { return strings.Repeat(" ", tape.Draw(3)) }
		switch {
		case shape <= 2:
			return base, true
		case shape <= 6:
			s := sp() + base
			n := 1 + tape.Draw(3)
			for i := 0; i < n; i++ {
				p := c15Params[tape.Draw(len(c15Params))]
				k, v, has := strings.Cut(p, "=")
				s += sp() + ";" + sp() + k
				if has {
					s += sp() + "=" + sp() + v
				}
			}
			return s + sp(), true
		case shape == 7:
			if tape.Draw(4) == 0 {
				// long but well-formed: hundreds of blanks or dozens of parameters
				s := strings.Repeat(" ", 200+tape.Draw(200)) + base
				for i := 0; i < 30+tape.Draw(30); i++ {
					s += "; p" + fmt.Sprint(i) + "=v" + fmt.Sprint(i)
				}
				return s, true
			}
			return sp() + base + sp(), true
		default:
			// outside the grammar: only "no panic, Match and Minify agree" is judged
			odd := []string{base + ";", base + ";;", base + "; =", ";" + base, base + " x", "", " ", "/", "*/*", "text/*", base + `; a="b c"`, base + ";a=b;a=c", "a", "ab", base + "\t; q=1"}
			return odd[tape.Draw(len(odd))], false
		}
	}

	nreg := tape.Draw(13)
	nq := 10 + tape.Draw(21)
	fail := func(kind, site, detail string) *CaseOut {
		out.V = &sim.Violation{Kind: kind, Site: site, Detail: detail + "\nhistory: " + strings.Join(hist, "; ")}
		return out
	}
	regsLeft := nreg
	for q := 0; q < nq; q++ {
		payload := []byte(fmt.Sprintf("payload%d", q))
		// registrations are interleaved with queries (sequentially: registration
		// concurrent with use is unsupported and not generated)
		for regsLeft > 0 && (q == 0 || tape.Draw(4) == 0) {
			register()
			regsLeft--
			if q == 0 && tape.Draw(3) == 0 {
				break
			}
		}
		mediatype, wf := drawMediatype()
		mt, params := modelSplit(mediatype)
		wantID, wantHow, wantOK := md.lookup(mt)
		kind := tape.Draw(8)
		if kind >= 6 && !wf {
			kind = 1
		}
		if kind == 7 && tape.Draw(3) == 0 {
			payload = nil // Writer + Close without a single Write: still a call for this media type
		}
		hist = append(hist, fmt.Sprintf("query%d(%q)", kind, mediatype))
		rec = rec[:0]
		site := fmt.Sprintf("query%d", kind)
		out.stat("queries", 1)
		if wantOK {
			out.stat("queries_dispatched", 1)
			if _, lit := md.literal[mt]; !lit {
				out.stat("queries_served_by_pattern", 1)
			}
		} else {
			out.stat("queries_not_exist", 1)
		}
		if !wf {
			// outside the grammar: Match and Minify must agree, nothing else
			out.stat("queries_outside_grammar", 1)
			_, _, f := m.Match(mediatype)
			w := sim.NewSimWriter(nil)
			err := m.Minify(mediatype, w, bytes.NewReader(payload))
			if len(rec) > 0 && forwarder[rec[0].id] {
				continue // served, by a minifier that itself reports not-exist
			}
			if (f == nil) != errors.Is(err, minify.ErrNotExist) {
				return fail("match-minify-disagree", site, fmt.Sprintf("Match(%q) func nil=%v but Minify error=%v", mediatype, f == nil, err))
			}
			continue
		}
		var gotOut []byte
		var gotErr error
		var wcalls int
		switch kind {
		case 0: // Match, then call what it returned
			how, mparams, f := m.Match(mediatype)
			if (f != nil) != wantOK {
				return fail("match-wrong", site, fmt.Sprintf("Match(%q): minifier found=%v, model says %v", mediatype, f != nil, wantOK))
			}
			if how != wantHow {
				return fail("match-pattern-string", site, fmt.Sprintf("Match(%q) names %q, model says %q", mediatype, how, wantHow))
			}
			if !paramsEqual(mparams, params) {
				return fail("params-differ", site, fmt.Sprintf("Match(%q) params %v, model %v", mediatype, mparams, params))
			}
			if f == nil {
				continue
			}
			w := sim.NewSimWriter(nil)
			gotErr = f(m, w, bytes.NewReader(payload), mparams)
			gotOut, wcalls = w.Buf, w.Calls
		case 1, 2:
			w := sim.NewSimWriter(nil)
			if kind == 1 {
				gotErr = m.Minify(mediatype, w, bytes.NewReader(payload))
			} else {
				gotErr = m.MinifyMimetype([]byte(mt), w, bytes.NewReader(payload), params)
			}
			gotOut, wcalls = w.Buf, w.Calls
		case 3:
			gotOut, gotErr = m.Bytes(mediatype, append([]byte(nil), payload...))
			if gotErr != nil && bytes.Equal(gotOut, payload) {
				gotOut = nil
			}
		case 4:
			var s string
			s, gotErr = m.String(mediatype, string(payload))
			gotOut = []byte(s)
			if gotErr != nil && s == string(payload) {
				gotOut = nil
			}
		case 5:
			gotOut, gotErr = io.ReadAll(m.Reader(mediatype, bytes.NewReader(payload)))
		case 7:
			sw := sim.NewSimWriter(nil)
			wc := m.Writer(mediatype, sw)
			var werr error
			if len(payload) > 0 {
				_, werr = wc.Write(payload[:len(payload)/2])
				if _, e := wc.Write(payload[len(payload)/2:]); werr == nil {
					werr = e
				}
			}
			gotErr = wc.Close()
			if gotErr == nil && !errors.Is(werr, io.ErrClosedPipe) {
				gotErr = werr
			}
			gotOut, wcalls = sw.Buf, sw.Calls
			out.stat("queries_through_writer_wrapper", 1)
		case 6:
			// an HTTP response with this Content-Type: served by the same minifier with the
			// same parameters as a call, and passed through untouched when there is none
			sw := sim.NewSimWriter(nil)
			rw := sim.NewSimResponseWriter(sw)
			mw := m.ResponseWriter(rw, &http.Request{RequestURI: "/resource", Method: "GET"})
			mw.Header().Set("Content-Type", mediatype)
			_, werr := mw.Write(payload)
			gotErr = mw.Close()
			if gotErr == nil {
				gotErr = werr
			}
			gotOut = sw.Buf
			out.stat("queries_through_http_response_writer", 1)
			if !wantOK {
				if gotErr != nil || !bytes.Equal(gotOut, payload) {
					return fail("passthrough-differs", site, fmt.Sprintf("Content-Type %q has no minifier: the body must pass through unchanged, got %q err=%v", mediatype, gotOut, gotErr))
				}
				if len(rec) != 0 {
					return fail("wrong-minifier", site, fmt.Sprintf("Content-Type %q: model says none, stub s%d ran", mediatype, rec[0].id))
				}
				continue
			}
		}
		if !wantOK {
			if !errors.Is(gotErr, minify.ErrNotExist) {
				return fail("not-exist-expected", site, fmt.Sprintf("%q: no literal and no pattern matches, but the call returned err=%v out=%q", mediatype, gotErr, gotOut))
			}
			if len(gotOut) != 0 || wcalls != 0 {
				return fail("wrote-on-not-exist", site, fmt.Sprintf("%q: not-exist but %d bytes / %d Write calls reached the writer", mediatype, len(gotOut), wcalls))
			}
			if len(rec) != 0 {
				return fail("wrong-minifier", site, fmt.Sprintf("%q: model says none, stub s%d ran", mediatype, rec[0].id))
			}
			continue
		}
		want := fmt.Sprintf("s%d:%s", wantID, payload)
		if forwarder[wantID] {
			out.stat("queries_served_by_a_minifier_that_returns_not_exist", 1)
			if kind == 6 {
				continue // through HTTP a not-exist error means pass-through: not judged here
			}
			if !errors.Is(gotErr, minify.ErrNotExist) {
				return fail("unexpected-error", site, fmt.Sprintf("%q: s%d returns the not-exist error, the call reported %v", mediatype, wantID, gotErr))
			}
			if len(rec) != 1 || rec[0].id != wantID {
				var ids []int
				for _, r := range rec {
					ids = append(ids, r.id)
				}
				return fail("wrong-minifier", site, fmt.Sprintf("%q: the model dispatches to s%d only (it failed with the not-exist error); minifiers that ran: %v", mediatype, wantID, ids))
			}
			continue
		}
		if gotErr != nil {
			return fail("unexpected-error", site, fmt.Sprintf("%q: model dispatches to s%d, call failed: %v", mediatype, wantID, gotErr))
		}
		if string(gotOut) != want {
			return fail("wrong-minifier", site, fmt.Sprintf("%q: got %q, model says %q (literal first, then first-registered matching pattern)", mediatype, gotOut, want))
		}
		if len(rec) == 1 { // in-process stub: check the params it received (command minifiers do not see params)
			if rec[0].id != wantID {
				return fail("wrong-minifier", site, fmt.Sprintf("%q: stub s%d ran, model says s%d", mediatype, rec[0].id, wantID))
			}
			if !paramsEqual(rec[0].params, params) {
				return fail("params-differ", site, fmt.Sprintf("%q: minifier received params %v, model %v", mediatype, rec[0].params, params))
			}
			if len(params) > 0 {
				out.stat("probe_params_passed", 1)
			}
		} else if len(rec) > 1 {
			return fail("wrong-minifier", site, fmt.Sprintf("%q: %d stubs ran for one call", mediatype, len(rec)))
		} else {
			cmdCalls++
			out.stat("command_minifier_calls", 1)
		}
	}
	out.Key = HashOf(strings.Join(hist, ";"))
	out.Nontrivial = nreg >= 2
	out.stat("registrations", int64(nreg))
	if len(md.patterns) >= 2 {
		out.stat("probe_overlapping_patterns_histories", 1)
	}
	out.Sample = map[string]any{"history": hist}
	return out
}

func c15Search(s *Search) {
	for i := s.Base(); s.More(); i++ {
		if !s.Mine(int(i)) {
			continue
		}
		s.TryRandom(i)
	}
}

func init() {
	props["C15"] = &propDef{Search: c15Search, Case: c15Case, Stream: "C15"}
}
