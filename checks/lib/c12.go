package lib

import (
	"bytes"
	"errors"
	"fmt"
	"io"
	"mime"
	"net/http"
	"os"
	"path"
	"regexp"
	"strings"

	"github.com/tdewolff/minify/v2"

	"verif/corpus"
	"verif/sim"
)

type plainRef struct {
	Out []byte
	Err error
	W   int
	Nil bool // no minifier for the media type (Match returns nil)
}

var plainRefCache = map[string]*plainRef{}

// plainReference is the oracle of C12/C13: the plain reader-to-writer call, executed
// sequentially, by the same tree.
func plainReference(mediatype string, data []byte, key string) *plainRef {
	key = mediatype + "\x00" + key
	if r, ok := plainRefCache[key]; ok {
		return r
	}
	m := NewRegistry(DefaultOptions())
	if strings.HasSuffix(key, ":fallback") {
		addFallback(m)
	}
	op := &Op{Entry: EPlain, MT: mediatype, In: data, R: sim.NewSimReader(nil, data), W: sim.NewSimWriter(nil)}
	op.Exec(nil, m)
	r := &plainRef{Out: op.Out, Err: op.Err, W: op.W.Calls}
	if op.Panic != "" {
		r.Err = fmt.Errorf("panic: %s", op.Panic)
	}
	_, _, f := m.Match(mediatype)
	r.Nil = f == nil
	if len(plainRefCache) > 8192 {
		plainRefCache = map[string]*plainRef{}
	}
	plainRefCache[key] = r
	return r
}

var fallbackRe = regexp.MustCompile(`^(text/plain)?$`)

func addFallback(m *minify.M) { m.AddFuncRegexp(fallbackRe, streamStub) }

var c12Entries = []int{EPlain, EBytes, EString, EReader, EWriter, ERespWriter, EMiddleware, EMiddleErr, EMatch}

var mtExt = map[string]string{"text/html": ".html", "text/css": ".css", "application/javascript": ".js",
	"application/json": ".json", "image/svg+xml": ".svg", "text/xml": ".xml", MTStream: ".strm", MTFail: ".fail", MTFailEarly: ".failearly", MTEarly: ".early", MTWrap: ".wrap"}

// errText never panics: a broken tree may hand back an error interface that wraps a nil
// pointer.
func errText(e error) (s string) {
	if e == nil {
		return "<nil>"
	}
	defer func() {
		if r := recover(); r != nil {
			s = fmt.Sprintf("<error value %T whose Error() panics: %v>", e, r)
		}
	}()
	return e.Error()
}

// maskChunks turns a bit mask into a composition of n: bit i set = cut after byte i+1.
func maskChunks(mask uint64, n int) []int {
	var out []int
	run := 0
	for i := 0; i < n; i++ {
		run++
		if i < n-1 && i < 63 && mask&(1<<uint(i)) != 0 {
			out = append(out, run)
			run = 0
		}
	}
	if len(out) > 0 {
		out = append(out, run)
	}
	return out
}

// c12Case: [doc, entry, partMode, mask, ctMode, uriMode, clMode, statusMode, useBytes,
// eofWithData, stick, mtVariant, emptyChunks, chunks…, consumer pacing…, schedule…]
func c12Case(env *Env, tape *sim.Tape) *CaseOut {
	out := &CaseOut{}
	di := tape.Draw(len(env.Corpus))
	doc := env.Corpus[di]
	entry := c12Entries[tape.Draw(len(c12Entries))]
	partMode := tape.Draw(2)
	mask := uint64(tape.Draw(1 << 30))
	ctMode := tape.Draw(6)
	uriMode := tape.Draw(8)
	clMode := tape.Draw(2)
	statusMode := tape.Draw(3)
	useBytes := tape.Draw(2) == 1
	eofWithData := tape.Draw(2) == 1
	stick := []int{0, 1, 9}[tape.Draw(3)]
	mtVariant := tape.Draw(8) // 0,2,4,6: bare type; 1,3,5: with a parameter; 7: a type nobody registered
	emptyChunks := tape.Draw(4) == 3

	data := doc.Data
	sized := tape.Draw(16) == 15
	if sized && partMode == 0 {
		data = sizedDoc(tape, doc.MT)
		doc.Name = fmt.Sprintf("sized(%s,%d)", doc.MT, len(data))
	}
	repeat := tape.Draw(6) == 5 // use the same registry (and minifier objects) a second time
	n := len(data)
	var chunks []int
	if partMode == 1 {
		chunks = maskChunks(mask, n)
	} else {
		chunks = drawChunks(tape, n, 24)
	}
	if emptyChunks && len(chunks) > 0 {
		// sprinkle empty chunks (zero-length Write / zero-byte Read)
		var c2 []int
		for i, c := range chunks {
			if i%2 == 0 {
				c2 = append(c2, 0)
			}
			c2 = append(c2, c)
		}
		chunks = c2
	}

	callMT := doc.MT
	if mtVariant%2 == 1 && mtVariant != 7 {
		callMT += "; charset=utf-8"
	}
	if mtVariant == 7 {
		// no minifier: every entry point must report the registry's not-exist error and
		// deliver nothing, also when not a single byte is written before Close
		callMT = "text/x-nobody-registered-this; v=1"
		out.stat("probe_unregistered_media_type", 1)
	}
	op := &Op{Entry: entry, MT: callMT, In: data, UseBytes: useBytes}
	op.W = sim.NewSimWriter(nil)
	op.R = sim.NewSimReader(nil, data)
	op.R.EOFWithData = eofWithData
	expectMT := callMT
	isHTTP := entry == ERespWriter || entry == EMiddleware || entry == EMiddleErr
	switch entry {
	case EPlain, EMatch, EReader:
		op.R.Chunks = chunks
	case EWriter:
		op.WriteChunks = chunks
	}
	if entry == EReader {
		k := tape.Draw(6)
		for i := 0; i < k; i++ {
			op.ReadBufs = append(op.ReadBufs, 1+tape.Draw(48))
		}
	}
	if isHTTP {
		op.WriteChunks = chunks
		other := corpus.MediaTypes[(di+1)%len(corpus.MediaTypes)]
		switch ctMode {
		case 0:
			op.ContentType = doc.MT
		case 1:
			op.ContentType = doc.MT + "; charset=utf-8"
		case 2:
			op.ContentType = ""
		case 3:
			op.ContentType = "text/plain" // no minifier: body must pass through unchanged
		case 4:
			op.ContentType = "" // extension decides, and it names another type than the body
		case 5:
			op.ContentType = doc.MT // header wins over a misleading extension
		}
		ext := mtExt[doc.MT]
		switch uriMode {
		case 0:
			op.RequestURI = "/dir/file" + ext
		case 1:
			op.RequestURI = "/file"
		case 2:
			op.RequestURI = "/file.txt"
		case 3:
			op.RequestURI = "/a.b/file.min" + ext
		case 4:
			op.RequestURI = "/file" + ext
		case 5:
			op.RequestURI = "/assets/file" + ext + "?v=3&x=a.b" // the request path is what is before '?'
		case 6:
			// a URL as a query value, not escaped (redirect targets, theme parameters)
			op.RequestURI = "/index" + ext + "?next=https://example.org/home"
		case 7:
			op.RequestURI = "/page" + ext + "?theme=http://cdn.example.org/a" + mtExt[other]
		}
		if ctMode == 4 || ctMode == 5 {
			op.RequestURI = "/misleading" + mtExt[other]
		}
		switch (mask >> 15) % 8 {
		case 5:
			op.RespHeader = http.Header{"Content-Encoding": {"identity"}, "Vary": {"Accept-Encoding"}}
		case 6:
			op.RespHeader = http.Header{"Etag": {`"abc"`}, "Cache-Control": {"max-age=60"}, "X-Content-Type-Options": {"nosniff"}}
		case 7:
			op.CtxCancelled = true
		case 4:
			// the handler declares a content coding (a precompressed asset, or the common
			// misconfiguration "UTF-8"): the type is still picked from Content-Type
			op.RespHeader = http.Header{"Content-Encoding": {[]string{"gzip", "br", "UTF-8", "deflate"}[(mask>>22)%4]}}
		case 3:
			if clMode == 0 && statusMode == 0 {
				op.LateHeader = true
				out.stat("probe_content_length_set_after_first_write", 1)
			}
		}
		if (mask>>13)%4 == 3 {
			// extensions are not case-sensitive (INDEX.HTML is an HTML file)
			if i := strings.IndexByte(op.RequestURI, '?'); i >= 0 {
				op.RequestURI = strings.ToUpper(op.RequestURI[:i]) + op.RequestURI[i:]
			} else {
				op.RequestURI = strings.ToUpper(op.RequestURI)
			}
			out.stat("probe_upper_case_path_extension", 1)
		}
		if clMode == 1 {
			op.ContentLength = fmt.Sprint(n)
		}
		op.Status = []int{0, 200, 404}[statusMode]
		op.Method = []string{"", "GET", "HEAD", "POST"}[int(mask>>3)%4]
		op.EarlyHints = (mask>>5)%8 == 7
		switch (mask >> 8) % 8 {
		case 3:
			op.ReqHeader = http.Header{"Range": {"bytes=0-"}, "Accept": {"*/*"}}
		case 4:
			op.ReqHeader = http.Header{"Accept-Encoding": {"gzip, br"}, "If-None-Match": {`"v1"`}, "Cache-Control": {"no-transform"}}
		case 5:
			op.ReqHeader = http.Header{"Range": {"bytes=2-5"}, "If-Modified-Since": {"Mon, 02 Jan 2006 15:04:05 GMT"}, "Content-Type": {"text/plain"}}
		case 6:
			op.ReqHeader = http.Header{}
		case 7:
			// the client offers a protocol upgrade (curl --http2 on cleartext, a WebSocket
			// handshake); the handler ignores it and answers with an ordinary document
			op.ReqHeader = http.Header{"Connection": {"Upgrade, HTTP2-Settings"}, "Upgrade": {[]string{"h2c", "websocket"}[(mask>>21)%2]}, "Http2-Settings": {"AAMAAABkAAQAAP__"}}
		}
		expectMT = op.ContentType
		if expectMT == "" {
			// "falling back to the request path extension": the path, not the query
			p := op.RequestURI
			if i := strings.IndexByte(p, '?'); i >= 0 {
				p = p[:i]
			}
			expectMT = mime.TypeByExtension(path.Ext(p))
		}
	}

	refKey := fmt.Sprint(di)
	if sized && partMode == 0 {
		refKey = fmt.Sprintf("sized:%s:%d", doc.MT, len(data))
	}
	// one registry in four also has a catch-all for responses without any type (and for
	// text/plain): what the wrappers make of an empty media type must be what a call makes of it
	fallback := (mask>>11)%4 == 3
	if fallback {
		refKey += ":fallback"
		out.stat("probe_registry_with_fallback_for_untyped", 1)
	}
	ref := plainReference(expectMT, data, refKey)
	if (entry == EMiddleware || entry == EMiddleErr) && (mask>>18)%8 == 7 && ref.Err == nil && !ref.Nil && len(data) > 0 {
		// the middleware applied twice (once on the router, once on the route): the response is
		// what two plain calls in a row produce, whether or not the minifier is idempotent
		second := plainReference(expectMT, ref.Out, refKey+":second")
		if second.Err == nil && !second.Nil && len(ref.Out) > 0 {
			op.Nested = true
			ref = second
			out.stat("probe_middleware_applied_twice", 1)
		}
	}
	m := NewRegistry(DefaultOptions())
	if fallback {
		addFallback(m)
	}
	var sv *sim.Violation
	var st RunStats
	scheduled := !(entry == EBytes || entry == EString)
	var firstOut []byte
	var firstOp *Op
	if repeat {
		// first use of the registry: the same call on the same data with fresh doubles; its
		// result is judged by the same oracle through the second use below, and it must
		// still read the same after the second call (results must not alias reused buffers)
		first := *op
		firstOp = &first
		first.W, first.R = sim.NewSimWriter(nil), sim.NewSimReader(nil, data)
		first.R.Chunks, first.R.EOFWithData = op.R.Chunks, op.R.EOFWithData
		if scheduled {
			RunTasks(env.T, sim.ReplayTape(nil), m, [][]*Op{{&first}}, 9, 1<<20, false)
		} else {
			first.Exec(nil, m)
		}
		firstOut = append([]byte(nil), first.Out...)
		out.stat("probe_second_use_of_registry", 1)
	}
	if scheduled {
		budget := 8*(ref.W+len(chunks)+len(op.ReadBufs)+len(ref.Out)/8+n/8) + 256
		sv, st = RunTasks(env.T, tape, m, [][]*Op{{op}}, stick, budget, false)
		out.stat("sched_steps", int64(st.Steps))
		out.stat("sched_preemptions", int64(st.Preempts))
	} else {
		op.Exec(nil, m)
	}

	site := fmt.Sprintf("%s:%s", entryNames[entry], doc.MT)
	out.TraceHash = st.TraceHash
	out.Digest = HashOf(op.Out, errText(op.Err), errText(op.CloseErr))
	out.Key = HashOf(di, entry, chunks, op.ReadBufs, op.ContentType, op.RequestURI, op.ContentLength, op.Status, useBytes, st.TraceHash)
	out.Nontrivial = len(chunks) > 1 || !scheduled || st.Steps > 3
	out.stat("entry_"+entryNames[entry], 1)
	if len(chunks) > 1 {
		out.stat("multi_chunk_cases", 1)
	}
	if sized && partMode == 0 {
		out.stat("probe_sized_document_near_buffer_boundary", 1)
	}
	if emptyChunks && len(chunks) > 0 {
		out.stat("probe_empty_chunks", 1)
	}
	for _, c := range chunks {
		if c == 1 {
			out.stat("probe_one_byte_chunks", 1)
			break
		}
	}
	if ref.Err != nil {
		out.stat("probe_minifier_error_cases", 1)
	}
	if isHTTP && ref.Nil {
		out.stat("probe_http_passthrough", 1)
	}
	if isHTTP && op.ContentType == "" {
		out.stat("probe_http_extension_fallback", 1)
	}
	if isHTTP && op.EarlyHints {
		out.stat("probe_http_early_hints_before_content_type", 1)
	}
	if isHTTP && op.Method == "HEAD" {
		out.stat("probe_http_head_request", 1)
	}
	if isHTTP && clMode == 1 && op.Status == 0 {
		out.stat("probe_http_content_length_implicit_header", 1)
	}
	out.Sample = map[string]any{"doc": doc.Name, "media_type": callMT, "entry": entryNames[entry], "chunks": chunks,
		"consumer_buffers": op.ReadBufs, "content_type": op.ContentType, "request_uri": op.RequestURI, "content_length": op.ContentLength,
		"status": op.Status, "method": op.Method, "early_hints": op.EarlyHints, "steps": st.Steps, "input": corpus.Short(data, 60)}

	fail := func(kind, detail string) *CaseOut {
		out.V = &sim.Violation{Kind: kind, Site: site, Detail: detail + fmt.Sprintf(" [doc=%s entry=%s chunks=%v bufs=%v ct=%q uri=%q cl=%q status=%d method=%q earlyhints=%v input=%q]",
			doc.Name, entryNames[entry], chunks, op.ReadBufs, op.ContentType, op.RequestURI, op.ContentLength, op.Status, op.Method, op.EarlyHints, corpus.Short(data, 100))}
		return out
	}
	if op.Panic != "" {
		return fail("panic", op.Panic)
	}
	if sv != nil {
		return fail(sv.Kind, "the run did not complete: "+sv.Detail)
	}
	if firstOp != nil && (entry == EBytes || entry == EString) && !bytes.Equal(firstOp.Out, firstOut) {
		return fail("result-changed-after-later-call", fmt.Sprintf("the slice returned by the first %s call read %q right after the call and %q after a second call on the same registry", entryNames[entry], corpus.Short(firstOut, 60), corpus.Short(firstOp.Out, 60)))
	}
	if !op.Finished {
		return fail("deadlock", "the entry point never returned")
	}
	if st.Leak != "" && entry != EReader {
		return fail("goroutine-left-blocked", st.Leak)
	}

	// error channel of each entry point
	gotErr := op.Err
	if entry == EMatch && op.MatchNil {
		// "the match query answers exactly what a call would use": no function = not-exist
		gotErr = minify.ErrNotExist
	}
	if isHTTP && len(data) == 0 && !ref.Nil {
		// a handler that writes no body never reaches a minifier (there is no Write call to
		// start one): nothing to compare with the plain call on an empty document
		out.stat("http_responses_without_body_not_compared", 1)
		return out
	}
	switch entry {
	case EWriter, ERespWriter:
		gotErr = op.CloseErr
	case EMiddleErr:
		gotErr = op.MidErr
	case EMiddleware:
		gotErr = ref.Err // the plain middleware drops the error by design
	}
	if isHTTP && ref.Nil {
		// no minifier: pass-through
		if !bytes.Equal(op.Out, data) {
			return fail("passthrough-differs", fmt.Sprintf("no minifier for %q: body must pass through unchanged; got %d bytes %q", expectMT, len(op.Out), corpus.Short(op.Out, 60)))
		}
		if gotErr != nil && entry != EMiddleware {
			return fail("passthrough-error", "pass-through reported "+errText(gotErr))
		}
	} else {
		if (gotErr == nil) != (ref.Err == nil) || (gotErr != nil && errText(gotErr) != errText(ref.Err)) {
			return fail("error-differs", fmt.Sprintf("entry reported %q, plain call reports %q", errText(gotErr), errText(ref.Err)))
		}
		if ref.Err == nil || entry == EWriter || entry == EReader || isHTTP {
			// on success the bytes must be identical; through the writers and the reader wrapper
			// even a failing minifier's output is "all output": what the plain call wrote before
			// failing (the consumer of the reader wrapper reads it, then gets the error)
			if !(ref.Err != nil && (entry == EBytes || entry == EString)) && !bytes.Equal(op.Out, ref.Out) {
				return fail("output-differs", fmt.Sprintf("%d bytes %q, plain call gives %d bytes %q", len(op.Out), corpus.Short(op.Out, 60), len(ref.Out), corpus.Short(ref.Out, 60)))
			}
		}
		if entry == EReader && ref.Err == nil && !op.GotEOF {
			return fail("no-eof", "reader wrapper: consumer never saw io.EOF")
		}
		if entry == EReader && ref.Err != nil && op.GotEOF {
			return fail("error-differs", "reader wrapper: clean io.EOF although the minifier failed with "+errText(ref.Err))
		}
	}
	if (entry == EBytes || entry == EString) && ref.Err != nil && !bytes.Equal(op.Out, data) {
		// belongs to C10's clause, reported here too because it is the same entry point
		out.stat("observed_bytes_returns_modified_input_on_error", 1)
	}
	if entry == EWriter || entry == ERespWriter || isHTTP {
		if op.W.LateWrites > 0 {
			return fail("write-after-close", fmt.Sprintf("%d Write call(s) reached the underlying writer after Close had returned", op.W.LateWrites))
		}
	}
	if entry == EWriter || entry == ERespWriter {
		if op.Close2Err != nil {
			return fail("second-close", "second Close returned "+errText(op.Close2Err))
		}
		if op.W.Calls != op.AtCloseN {
			return fail("write-after-close", "the second Close wrote to the underlying writer")
		}
		if len(op.WriteErrs) > 0 && ref.Err == nil && !ref.Nil && !errors.Is(op.WriteErrs[0], io.ErrClosedPipe) {
			// io.ErrClosedPipe is what a producer gets when the minifier has already returned
			// (it did not need the rest of the input); anything else is a lost write
			return fail("write-error", "producer Write failed although the minifier succeeded: "+errText(op.WriteErrs[0]))
		}
		if len(op.WriteErrs) > 0 {
			out.stat("probe_producer_write_after_minifier_returned", 1)
		}
	}
	if isHTTP {
		if op.RW.Frozen == nil && op.Status != 0 {
			return fail("http-status", "the handler's explicit WriteHeader never reached the underlying response")
		}
		if op.RW.Frozen != nil {
			if !ref.Nil && op.RW.Frozen.Get("Content-Length") != "" {
				return fail("stale-content-length", fmt.Sprintf("response headers were sent with Content-Length=%s although the body is minified (explicit WriteHeader: %v)", op.RW.Frozen.Get("Content-Length"), op.Status != 0))
			}
			wantStatus := op.Status
			if wantStatus == 0 {
				wantStatus = 200
			}
			if op.RW.Status != wantStatus {
				return fail("http-status", fmt.Sprintf("status %d sent, handler chose %d", op.RW.Status, wantStatus))
			}
			if op.ContentType != "" && op.RW.Frozen.Get("Content-Type") != op.ContentType {
				return fail("http-content-type", "Content-Type header changed")
			}
		}
	}
	return out
}

// c12Search: exhaustive compositions for the short documents through every entry point,
// then random cases (long documents, random partitions, consumer pacing, schedules).
func c12Search(s *Search) {
	env := s.Env
	idx := uint64(0)
	nshort := len(ShortDocs())
	maxN := 10
	if env.Tier == "thorough" {
		maxN = 12
	}
	complete := true
	job := 0
	for di := 0; di < nshort; di++ {
		if os.Getenv("VERIF_RANDOM_ONLY") != "" {
			break
		}
		n := len(env.Corpus[di].Data)
		if n > maxN {
			if n <= 12 {
				complete = false
			}
			continue
		}
		for e := range c12Entries {
			job++
			if !s.Mine(job) {
				continue
			}
			for mask := uint64(0); mask < 1<<uint(n-1); mask++ {
				if !s.More() {
					complete = false
					break
				}
				idx++
				v := uint64(idx)
				s.Try(idx, sim.ReplayTape([]uint64{uint64(di), uint64(e), 1, mask, v % 2, v % 5, (v / 2) % 2, (v / 3) % 3, v % 2, (v / 2) % 2, v % 3, (v / 5) % 2, v % 4,
					v, v / 3, v / 7, v, v / 2, v / 5, v, v / 3, v, v / 2, v}))
				s.Res.Stats["exhaustive_composition_cases"]++
			}
		}
	}
	s.Res.Exhaustive = false // the random part is sampling; the composition part is reported separately
	if complete {
		s.Res.Stats["short_inputs_all_compositions_complete"] = 1
	}
	for i := s.Base(); s.More(); i++ {
		if !s.Mine(int(i)) {
			continue
		}
		s.TryRandom(i)
		s.Res.Stats["random_cases"]++
	}
}

func init() {
	props["C12"] = &propDef{Search: c12Search, Case: c12Case, Stream: "C12"}
}
