package lib

import (
	"bytes"
	"fmt"

	"github.com/tdewolff/parse/v2"
	phtml "github.com/tdewolff/parse/v2/html"
	pxml "github.com/tdewolff/parse/v2/xml"

	mhtml "github.com/tdewolff/minify/v2/html"
	msvg "github.com/tdewolff/minify/v2/svg"
	mxml "github.com/tdewolff/minify/v2/xml"

	"verif/corpus"
	"verif/sim"
)

// The exported look-ahead buffers of the html, svg and xml packages are stateful objects
// with a two-operation API (Peek(k), Shift). C10 drives them with seeded operation
// histories against a trivial reference model: the plain token list of a second lexer over
// a private copy of the same bytes. Every Peek(k) must return the token at cursor+k (the
// final error token when that is past the end), every Shift the token at the cursor, and
// nothing may panic, whatever k is.

type tbTok struct {
	tt   int
	data []byte
}

type tbDriver struct {
	peek  func(k int) (int, []byte)
	shift func() (int, []byte)
}

// The svg buffer normalises attribute values in place while it reads (whitespace, entities),
// so the bytes of its attribute tokens legitimately differ from the plain lexer's: for those
// only the token type is compared.
func tbSetup(mt string, data []byte) (ref []tbTok, d tbDriver, errTT int) {
	a := append([]byte(nil), data...)
	b := append([]byte(nil), data...)
	switch mt {
	case "text/html":
		l := phtml.NewLexer(parse.NewInputBytes(a))
		for {
			tt, dd := l.Next()
			ref = append(ref, tbTok{int(tt), append([]byte(nil), dd...)})
			if tt == phtml.ErrorToken {
				break
			}
		}
		in := parse.NewInputBytes(b)
		z := mhtml.NewTokenBuffer(in, phtml.NewLexer(in))
		d.peek = func(k int) (int, []byte) { t := z.Peek(k); return int(t.TokenType), t.Data }
		d.shift = func() (int, []byte) { t := z.Shift(); return int(t.TokenType), t.Data }
		return ref, d, int(phtml.ErrorToken)
	default:
		l := pxml.NewLexer(parse.NewInputBytes(a))
		for {
			tt, dd := l.Next()
			if mt == "image/svg+xml" && tt == pxml.AttributeToken {
				dd = nil
			}
			ref = append(ref, tbTok{int(tt), append([]byte(nil), dd...)})
			if tt == pxml.ErrorToken {
				break
			}
		}
		in := parse.NewInputBytes(b)
		if mt == "image/svg+xml" {
			z := msvg.NewTokenBuffer(in, pxml.NewLexer(in))
			d.peek = func(k int) (int, []byte) { t := z.Peek(k); return int(t.TokenType), t.Data }
			d.shift = func() (int, []byte) { t := z.Shift(); return int(t.TokenType), t.Data }
		} else {
			z := mxml.NewTokenBuffer(pxml.NewLexer(in))
			d.peek = func(k int) (int, []byte) { t := z.Peek(k); return int(t.TokenType), t.Data }
			d.shift = func() (int, []byte) { t := z.Shift(); return int(t.TokenType), t.Data }
		}
		return ref, d, int(pxml.ErrorToken)
	}
}

func c10TokenBuffer(env *Env, tape *sim.Tape) *CaseOut {
	out := &CaseOut{Nontrivial: true}
	var doc corpus.Doc
	for tries := 0; tries < 64; tries++ {
		doc = env.Corpus[tape.Draw(len(env.Corpus))]
		if (doc.MT == "text/html" || doc.MT == "image/svg+xml" || doc.MT == "text/xml") && len(doc.Data) <= 16<<10 {
			break
		}
	}
	if !(doc.MT == "text/html" || doc.MT == "image/svg+xml" || doc.MT == "text/xml") || len(doc.Data) > 16<<10 {
		out.Nontrivial = false
		return out
	}
	data := doc.Data
	if tape.Draw(3) == 0 && len(data) > 0 {
		data = data[:tape.Draw(len(data)+1)] // the stream ended early
	}
	site := "TokenBuffer:" + doc.MT
	CurrentSite = site
	defer func() { CurrentSite = "" }()
	var hist []string
	fail := func(kind, detail string) *CaseOut {
		out.V = &sim.Violation{Kind: kind, Site: site, Detail: detail + fmt.Sprintf(" [doc=%s input=%q history=%v]", doc.Name, corpus.Short(data, 120), hist)}
		return out
	}
	var ref []tbTok
	var d tbDriver
	errTT := 0
	cur := 0
	at := func(i int) tbTok {
		if i >= len(ref) {
			return ref[len(ref)-1]
		}
		return ref[i]
	}
	panicked := ""
	func() {
		defer func() {
			if r := recover(); r != nil {
				panicked = fmt.Sprint(r)
			}
		}()
		ref, d, errTT = tbSetup(doc.MT, data)
		n := 4 + tape.Draw(60)
		for i := 0; i < n && out.V == nil; i++ {
			if tape.Draw(3) == 0 {
				hist = append(hist, "Shift")
				tt, dd := d.shift()
				want := at(cur)
				if tt != want.tt || (tt != errTT && want.data != nil && !bytes.Equal(dd, want.data)) {
					fail("helper-wrong-token", fmt.Sprintf("Shift returned token type %d %q, the lexer's token %d is type %d %q", tt, corpus.Short(dd, 40), cur, want.tt, corpus.Short(want.data, 40)))
					return
				}
				if cur < len(ref)-1 {
					cur++
				}
				continue
			}
			k := tape.Draw(4)
			switch tape.Draw(12) {
			case 0, 1:
				k = 4 + tape.Draw(40)
			case 2:
				k = 41 + tape.Draw(300)
			}
			hist = append(hist, fmt.Sprintf("Peek(%d)", k))
			tt, dd := d.peek(k)
			want := at(cur + k)
			if tt != want.tt || (tt != errTT && want.data != nil && !bytes.Equal(dd, want.data)) {
				fail("helper-wrong-token", fmt.Sprintf("Peek(%d) at cursor %d returned token type %d %q, the lexer's token %d is type %d %q", k, cur, tt, corpus.Short(dd, 40), cur+k, want.tt, corpus.Short(want.data, 40)))
				return
			}
			if k > 8 {
				out.stat("probe_tokenbuffer_far_lookahead", 1)
			}
		}
	}()
	out.stat("entry_TokenBuffer", 1)
	out.Key = HashOf(doc.Name, len(data), fmt.Sprint(hist))
	out.Sample = map[string]any{"doc": doc.Name, "media_type": doc.MT, "entry": "TokenBuffer", "history": hist}
	if out.V != nil {
		return out
	}
	if panicked != "" {
		return fail("panic", panicked)
	}
	return out
}
