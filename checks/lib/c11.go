package lib

import (
	"bytes"
	"encoding/base64"
	"errors"
	"fmt"
	"io"
	"net/url"
	"strings"
	"unicode/utf8"

	"github.com/tdewolff/minify/v2"
	"github.com/tdewolff/minify/v2/css"
	"github.com/tdewolff/minify/v2/html"
	"github.com/tdewolff/minify/v2/svg"
	"github.com/tdewolff/parse/v2"
	pcss "github.com/tdewolff/parse/v2/css"

	"verif/sim"
)

// C11: the host<->embedded-minifier interaction through the registry seam. Hosts are built
// from templates with known payload spans; each embedded media type is, per run, served by
// the real minifier, absent, a recording stub, an identity stub, or a stub that fails on
// its n-th invocation. The recorded call history and the outer result are compared with
// what the host construction predicts.

const (
	mReal = iota
	mAbsent
	mRec
	mIdent
	mFail
	nModes
)

var modeNames = [...]string{"real", "absent", "recording", "identity", "failing"}

type c11Slot struct {
	MT      string // media type the payload must be dispatched to
	Inline  bool   // attribute context: params inline=1
	Payload []byte // bytes the embedded minifier must receive
	Ctx     string
	Start   int // span of the construct in the outer document
	End     int
	Via     string // "" direct; "datauri"; nested host media type (e.g. image/svg+xml)
	Attr    bool
	Params  map[string]string // parameters of the type attribute that the minifier must receive
	Quoting bool              // CSS url(): the output must re-lex as one URL token carrying the payload's minification
	// ErrStart/ErrEnd (when ErrEnd > 0): the span of the outer construct an error of this
	// payload must be located in, when that is wider than the payload (a conditional comment)
	ErrStart, ErrEnd int
}

type c11Host struct {
	MT    string
	Doc   []byte
	Slots []c11Slot
	// KeepCond: the host holds a downlevel-hidden conditional comment with embedded content;
	// the host minifier is configured to keep such comments (their content is minified as HTML)
	KeepCond bool
}

var c11Payloads = map[string][]string{
	"application/javascript": {"var alpha = 1 + 2 ; window.foo( alpha ) ;", "function f ( a ) { return a * 2 }\n f( 3 ) ;"},
	"module":                 {"import x from './y.js' ; export default x ;"},
	"application/ld+json":    {"{ \"name\" : \"x\" , \"n\" : [ 1 , 2.0 ] }"},
	"text/template":          {"<div>  {{ name }}  </div>"},
	"text/css":               {"a { color : #ff0000 ; margin : 0px }", ".k > p { top : 1.0em }"},
	"css-decl":               {"color : #ff0000 ; margin : 0px", "top : 1.0em"},
	"js-attr":                {"return  false ;", "foo( 1 , 2 ) ;"},
	"image/svg+xml":          {"<svg xmlns=\"http://www.w3.org/2000/svg\" width=\"10\">  <path d=\"M 10 10 L 20 20\"/>  </svg>"},
	"application/mathml+xml": {"<math>  <mi> x </mi>  </math>"},
	"text/html":              {"<p>  inner  </p>"},
	"text/plain":             {"hello  plain   text", "a b"},
}

var c11BadPayloads = map[string][]string{
	"application/javascript": {"var a = ;", "function ( {"},
	"application/ld+json":    {"{ \"a\" : , }"},
}

// buildHost draws a host document and its slots.
func buildHost(tape *sim.Tape, bad bool) *c11Host {
	h := &c11Host{MT: "text/html"}
	var doc bytes.Buffer
	pick := func(key string) []byte {
		p := c11Payloads[key]
		return []byte(p[tape.Draw(len(p))])
	}
	add := func(prefix string, s c11Slot, suffix string) {
		if h.MT == "text/html" && !s.Attr && strings.HasPrefix(prefix, "<s") {
			// script/style elements also occur inside other elements, e.g. preformatted text
			switch tape.Draw(6) {
			case 1:
				prefix, suffix = "<pre>\n"+prefix, strings.TrimSuffix(suffix, "\n")+"</pre>\n"
			case 2:
				prefix, suffix = "<div><p>x</p>"+prefix, strings.TrimSuffix(suffix, "\n")+"</div>\n"
			case 3:
				// inside a downlevel-hidden conditional comment, which the host is told to keep:
				// its content is HTML like any other, and an error in it is an error in this
				// document, located in the comment
				prefix, suffix = "<!--[if lt IE 9]>"+prefix, strings.TrimSuffix(suffix, "\n")+"<![endif]-->\n"
				h.KeepCond = true
				s.ErrStart = doc.Len()
				s.ErrEnd = doc.Len() + len(prefix) + len(s.Payload) + len(suffix)
			}
		}
		doc.WriteString(prefix)
		s.Start = doc.Len()
		doc.Write(s.Payload)
		s.End = doc.Len()
		doc.WriteString(suffix)
		h.Slots = append(h.Slots, s)
	}
	family := tape.Draw(4)
	if family == 3 {
		// SVG host
		h.MT = "image/svg+xml"
		// the root element may name the default style type of the document (contentStyleType):
		// style elements and attributes are then dispatched to that type
		styleMT := "text/css"
		switch tape.Draw(6) {
		case 0:
			doc.WriteString("<svg xmlns=\"http://www.w3.org/2000/svg\" contentStyleType=\"text/css\">\n")
		case 1, 2:
			styleMT = []string{"text/xsl", "text/x-custom-style-language"}[tape.Draw(2)]
			doc.WriteString("<svg xmlns=\"http://www.w3.org/2000/svg\" width=\"5\" contentStyleType=\"" + styleMT + "\">\n")
		default:
			doc.WriteString("<svg xmlns=\"http://www.w3.org/2000/svg\">\n")
		}
		ctx := ""
		if styleMT != "text/css" {
			ctx = " contentStyleType"
		}
		n := 1 + tape.Draw(3)
		for i := 0; i < n; i++ {
			switch tape.Draw(3) {
			case 0:
				add("<style>", c11Slot{MT: styleMT, Payload: pick("text/css"), Ctx: "svg<style>" + ctx}, "</style>\n")
			case 1:
				add("<path d=\"M0 0\" style=\"", c11Slot{MT: styleMT, Inline: true, Payload: pick("css-decl"), Ctx: "svg style=" + ctx, Attr: true}, "\"/>\n")
			case 2:
				add("<style><![CDATA[", c11Slot{MT: styleMT, Payload: pick("text/css"), Ctx: "svg<style>CDATA" + ctx}, "]]></style>\n")
			}
		}
		doc.WriteString("</svg>")
		h.Doc = doc.Bytes()
		return h
	}
	if family == 2 {
		// CSS host with data URIs
		h.MT = "text/css"
		n := 1 + tape.Draw(2)
		for i := 0; i < n; i++ {
			pl := pick("image/svg+xml")
			if tape.Draw(3) == 0 {
				// unquoted in the source (base64 needs no quotes); the re-encoded payload has
				// parentheses and a quote, so the output URL must be quoted again
				pl = []byte("<svg xmlns=\"http://www.w3.org/2000/svg\" viewBox=\"0 0 40 40\">\n  <g transform=\"translate(4,4)\">\n    <path d=\"M 0 0 L 10 0 L 10 10 L 0 10 Z M 20 20 L 30 20 L 30 30 L 20 30 Z M 0 20 L 10 20 L 10 30 L 0 30 Z M 20 0 L 30 0 L 30 10 L 20 10 Z M 5 5 L 6 5 L 6 6 L 5 6 Z\"/>\n  </g>\n</svg>")
				doc.WriteString(fmt.Sprintf(".c%d { background : url(", i))
				s := c11Slot{MT: "image/svg+xml", Payload: pl, Ctx: "css url(data:) unquoted", Via: "datauri", Attr: true, Quoting: true}
				s.Start = doc.Len()
				doc.WriteString("data:image/svg+xml;base64," + base64.StdEncoding.EncodeToString(pl))
				s.End = doc.Len()
				doc.WriteString(") ; }\n")
				h.Slots = append(h.Slots, s)
				continue
			}
			enc, mt, pl, prm := encodeDataURI(tape, "image/svg+xml", pl)
			switch tape.Draw(8) {
			case 0:
				// a line continuation of the CSS string right behind the opening quote, ...
				enc = "\\\n" + enc
			case 1:
				// ... somewhere in the middle, ...
				enc = enc[:len(enc)/2] + "\\\r\n" + enc[len(enc)/2:]
			case 2:
				// ... or right before the closing quote: not part of the URL
				enc = enc + "\\\n"
			}
			if i == 0 && tape.Draw(4) == 0 {
				// a long stylesheet in front: what the minifier counts or caches while it reads
				// hundreds of ordinary declarations must not change what happens to a later URL
				for k, n := 0, 90+tape.Draw(160); k < n; k++ {
					doc.WriteString(fmt.Sprintf(".v%d { color : var( --c%d ) ; margin : calc( 1px + %dpx ) }\n", k, k, k))
				}
			}
			pre, post := "url(\"", "\")"
			if tape.Draw(3) == 0 {
				// nested in a function
				pre, post = []string{"image-set( url(\"", "cross-fade( url(\""}[tape.Draw(2)], "\") 1x )"
				if strings.HasPrefix(pre, "cross") {
					post = "\") , red )"
				}
			}
			layers := ""
			if tape.Draw(5) == 0 {
				// one declaration with dozens of comma-separated layers in front of the URL
				for k, n := 0, 40+tape.Draw(40); k < n; k++ {
					layers += fmt.Sprintf("url( img%d.png ) no-repeat , ", k)
				}
			}
			doc.WriteString(fmt.Sprintf(".c%d { background : %s%s", i, layers, pre))
			s := c11Slot{MT: mt, Payload: pl, Ctx: "css url(data:)", Via: "datauri", Attr: true, Params: prm}
			s.Start = doc.Len()
			doc.WriteString(enc)
			s.End = doc.Len()
			doc.WriteString(post + " ; }\n")
			h.Slots = append(h.Slots, s)
		}
		h.Doc = doc.Bytes()
		return h
	}
	doc.WriteString("<!DOCTYPE html>\n<html>\n<head>\n<title>t</title>\n")
	n := 1 + tape.Draw(4)
	badAt := -1
	if bad {
		badAt = tape.Draw(n)
	}
	for i := 0; i < n; i++ {
		k := tape.Draw(15)
		if i == badAt {
			k = []int{0, 2}[tape.Draw(2)]
			// text in other scripts earlier on the line of the failing element, or a line
			// separator that is not \n: the reported position must still point into it
			switch tape.Draw(4) {
			case 0:
				doc.WriteString("<p>Überschrift – żółć ✓ 日本語のテキスト</p>")
			case 1:
				doc.WriteString("<p>a\u2028b</p>")
			}
		}
		switch k {
		case 0:
			pl := pick("application/javascript")
			if i == badAt {
				b := c11BadPayloads["application/javascript"]
				pl = []byte(b[tape.Draw(len(b))])
			}
			pi := tape.Draw(3)
			smt := []string{"application/javascript", "text/javascript", "application/javascript"}[pi]
			open := []string{"<script>", "<script type=\"text/javascript\">", "<script type=\"application/javascript\">\n"}[pi]
			if a := tape.Draw(6); a < 3 {
				// other attributes do not change what the content is
				open = strings.Replace(open, "<script", []string{"<script src=\"lib.js\"", "<script async defer", "<script id=\"s1\" nonce=\"n0nce\" crossorigin"}[a], 1)
			}
			add(open, c11Slot{MT: smt, Payload: pl, Ctx: "<script>"}, "</script>\n")
		case 1:
			if tape.Draw(3) == 0 {
				// other keyword types (no slash): whatever the user registered for the keyword is
				// used, and nothing else; without a registration the content passes through
				kw := []string{"importmap", "speculationrules"}[tape.Draw(2)]
				add("<script type=\""+kw+"\">", c11Slot{MT: kw, Payload: []byte("{ \"imports\" : { \"a\" : \"./a.js\" , } }"), Ctx: "<script type=" + kw + ">"}, "</script>\n")
				break
			}
			add("<script type=\"module\">", c11Slot{MT: "module", Payload: pick("module"), Ctx: "<script type=module>"}, "</script>\n")
		case 2:
			pl := pick("application/ld+json")
			if i == badAt {
				pl = []byte(c11BadPayloads["application/ld+json"][0])
			}
			// the attribute VALUE is what counts: character references are decoded and blanks
			// around it ignored, like for every other attribute
			open := []string{"<script type=\"application/ld+json\">", "<script type=\"application/ld+json\">", "<script type=\"application/ld&#43;json\">",
				"<script type=\"application&#x2F;ld+json\">", "<script type=\"  application/ld+json \">", "<script type='application/ld&plus;json'>"}[tape.Draw(6)]
			add(open, c11Slot{MT: "application/ld+json", Payload: pl, Ctx: "<script type=ld+json>"}, "</script>\n")
		case 3:
			if tape.Draw(3) == 0 {
				// parameters in the type attribute reach the minifier as a map
				add("<script type=\"text/template; a=b; c=d\">", c11Slot{MT: "text/template", Payload: pick("text/template"), Ctx: "<script type=text/template; a=b; c=d>",
					Params: map[string]string{"a": "b", "c": "d"}}, "</script>\n")
				break
			}
			add("<script type=\"text/template\">", c11Slot{MT: "text/template", Payload: pick("text/template"), Ctx: "<script type=text/template>"}, "</script>\n")
		case 4:
			// (attributes other than type do not change what the content is: AMP's author
			// styles, a nonce, a media query)
			add([]string{"<style>", "<style type=\"text/css\">", "<style media=\"screen\">", "<style amp-custom>", "<style amp-keyframes>", "<style nonce=\"n0nce\" media=\"print\">", "<style id=s1 data-x=\"amp-boilerplate\">"}[tape.Draw(7)],
				c11Slot{MT: "text/css", Payload: pick("text/css"), Ctx: "<style>"}, "</style>\n")
		case 5:
			add([]string{"<p style=\"", "<td class=c style=\"", "<span STYLE=\""}[tape.Draw(3)], c11Slot{MT: "text/css", Inline: true, Payload: pick("css-decl"), Ctx: "style=", Attr: true}, "\">x</p>\n")
		case 6:
			pl := pick("js-attr")
			pre := []string{"<a onclick=\"", "<a onclick=\"javascript:", "<body onload=\"", "<img src=\"i.png\" onerror=\"", "<div onmouseover='"}[tape.Draw(5)]
			post := "\">y</a>\n"
			if strings.HasSuffix(pre, "'") {
				post = "'>y</div>\n"
			}
			if tape.Draw(3) == 0 {
				// entities in the attribute value: the embedded minifier must get the
				// unescaped text (HTML attribute value semantics)
				doc.WriteString(pre)
				s := c11Slot{MT: "application/javascript", Inline: true, Payload: []byte("foo( 'a' , 1 > 0 && 2 ) ;"), Ctx: "on*= with entities", Attr: true}
				s.Start = doc.Len()
				doc.WriteString("foo( &#39;a&#39; , 1 &gt; 0 &amp;&amp; 2 ) ;")
				s.End = doc.Len()
				doc.WriteString(post)
				h.Slots = append(h.Slots, s)
				break
			}
			add(pre, c11Slot{MT: "application/javascript", Inline: true, Payload: pl, Ctx: "on*=", Attr: true}, post)
		case 7:
			add("<p>s</p>", c11Slot{MT: "image/svg+xml", Inline: true, Payload: pick("image/svg+xml"), Ctx: "inline <svg>"}, "<p>e</p>\n")
		case 8:
			add("<p>m</p>", c11Slot{MT: "application/mathml+xml", Payload: pick("application/mathml+xml"), Ctx: "inline <math>"}, "<p>e</p>\n")
		case 9:
			add("<iframe>", c11Slot{MT: "text/html", Payload: pick("text/html"), Ctx: "<iframe>"}, "</iframe>\n")
		case 10, 11:
			key := []string{"image/svg+xml", "text/css", "text/plain"}[tape.Draw(3)]
			pl := pick(key)
			enc, mt, pl, prm := encodeDataURI(tape, key, pl)
			if key == "text/plain" && len(prm) == 0 && tape.Draw(2) == 0 {
				// the default media type of a data: URI, not written out
				enc = "data:" + strings.TrimPrefix(enc, "data:text/plain")
			}
			doc.WriteString([]string{"<img src=\"", "<a href=\""}[k-10])
			s := c11Slot{MT: mt, Payload: pl, Ctx: "html data: URI", Via: "datauri", Attr: true, Params: prm}
			s.Start = doc.Len()
			doc.WriteString(enc)
			s.End = doc.Len()
			doc.WriteString([]string{"\">\n", "\">z</a>\n"}[k-10])
			h.Slots = append(h.Slots, s)
		case 13, 14:
			// a typed raw element WITHOUT content (external resource): nothing is dispatched for
			// it, and its type must not leak into the next raw element
			doc.WriteString([]string{"<script type=\"text/template\" src=\"t.tpl\"></script>\n", "<script type=\"application/ld+json\" src=\"d.json\"></script>\n",
				"<script type=\"module\" src=\"m.js\"></script>\n", "<style type=\"text/x-unknown\"></style>\n"}[tape.Draw(4)])
		case 12:
			// nested: HTML -> inline SVG (real svg minifier) -> CSS
			inner := pick("text/css")
			doc.WriteString("<p>n</p><svg width=\"5\"><style>")
			s := c11Slot{MT: "text/css", Payload: inner, Ctx: "html>svg<style>", Via: "image/svg+xml"}
			s.Start = doc.Len()
			doc.Write(inner)
			s.End = doc.Len()
			doc.WriteString("</style><path d=\"M0 0\"/></svg><p>e</p>\n")
			h.Slots = append(h.Slots, s)
		}
	}
	doc.WriteString("</head>\n<body><p> text </p></body>\n</html>\n")
	h.Doc = doc.Bytes()
	return h
}

// c11Literal holds payloads that can be written into a data: URI as they are (no quote, no
// percent sign, no line break): what reaches the minifier must be these bytes, runs of blanks
// and tabs included.
var c11Literal = map[string]string{
	"image/svg+xml": "<svg xmlns='http://www.w3.org/2000/svg'  width='10'>  <path d='M 10 10  L 20\t20'/>  </svg>",
	"text/css":      "a  {  color :  #ff0000 ;\tmargin :  0px  }",
	"text/plain":    "hello  plain\ttext",
}

// encodeDataURI writes payload as a data: URI for media type mt in one of the spellings of
// RFC 2397, and returns the URI, the media type and the bytes its minifier must receive, and
// the parameters it must receive with them.
func encodeDataURI(tape *sim.Tape, mt string, payload []byte) (string, string, []byte, map[string]string) {
	switch tape.Draw(6) {
	case 0:
		return "data:" + mt + ";base64," + base64.StdEncoding.EncodeToString(payload), mt, payload, map[string]string{}
	case 1:
		return "data:" + mt + "," + url.PathEscape(string(payload)), mt, payload, map[string]string{}
	case 2:
		return "data:" + mt + ";charset=utf-8;base64," + base64.StdEncoding.EncodeToString(payload), mt, payload, map[string]string{"charset": "utf-8"}
	case 3:
		// nothing escaped at all
		if lit, ok := c11Literal[mt]; ok {
			payload = []byte(lit)
		}
		return "data:" + mt + "," + string(payload), mt, payload, map[string]string{}
	case 4:
		// the default charset, written out, with another parameter behind it
		return "data:" + mt + ";charset=us-ascii;a=b;base64," + base64.StdEncoding.EncodeToString(payload), mt, payload, map[string]string{"charset": "us-ascii", "a": "b"}
	default:
		return "data:" + mt + ";a=b;charset=US-ASCII," + url.PathEscape(string(payload)), mt, payload, map[string]string{"charset": "US-ASCII", "a": "b"}
	}
}

type c11Call struct {
	Stub    string
	Params  map[string]string
	Payload []byte
	Marker  string
}

func c11Case(env *Env, tape *sim.Tape) *CaseOut {
	out := &CaseOut{}
	bad := tape.Draw(5) == 0
	h := buildHost(tape, bad)
	types := []string{"application/javascript", "text/javascript", "module", "application/ld+json", "text/template", "text/css", "image/svg+xml", "application/mathml+xml", "text/html",
		"text/xsl", "text/x-custom-style-language", "importmap", "speculationrules", "text/plain"}
	modes := map[string]int{}
	swarm := tape.Draw(3) // 0: everything real; 1: mostly stubs; 2: mixed
	for _, t := range types {
		switch swarm {
		case 0:
			modes[t] = mReal
		case 1:
			modes[t] = []int{mRec, mRec, mAbsent, mIdent, mFail}[tape.Draw(5)]
		default:
			modes[t] = tape.Draw(nModes)
		}
	}
	if bad {
		// real syntax errors need the real minifiers
		for _, t := range types {
			modes[t] = mReal
		}
	}
	modes["text/javascript"] = modes["application/javascript"]
	for _, t := range []string{"text/template", "text/xsl", "text/x-custom-style-language", "importmap", "speculationrules"} {
		if modes[t] == mReal {
			modes[t] = mAbsent // there is no real minifier for it
		}
	}
	// nested hosts must be real for the nesting to happen
	for _, s := range h.Slots {
		if s.Via != "" && s.Via != "datauri" {
			modes[s.Via] = mReal
		}
	}
	failOn := 1 + tape.Draw(3)
	failAfter := tape.Draw(6)
	// the failing stub's error: a plain sentinel, or one that wraps the registry's own
	// not-exist sentinel (a minifier that delegates to a helper type which is not registered):
	// it was found and ran, so it failed; only the bare sentinel means "no minifier"
	stubErr := ErrStubFailed
	if tape.Draw(3) == 0 {
		stubErr = fmt.Errorf("stub minifier: helper type missing: %w", minify.ErrNotExist)
	}

	var calls []c11Call
	counts := map[string]int{}
	m := minify.New()
	realM := NewRegistry(DefaultOptions())
	mkStub := func(t string, mode int) minify.MinifierFunc {
		return func(_ *minify.M, w io.Writer, r io.Reader, params map[string]string) error {
			b, err := io.ReadAll(r)
			if err != nil {
				return err
			}
			counts[t]++
			c := c11Call{Stub: t, Params: params, Payload: b}
			switch mode {
			case mRec:
				c.Marker = fmt.Sprintf("MK%dQ%d", len(calls), len(b))
				calls = append(calls, c)
				_, err = w.Write([]byte(c.Marker))
				return err
			case mIdent:
				calls = append(calls, c)
				_, err = w.Write(b)
				return err
			default: // mFail
				calls = append(calls, c)
				if counts[t] == failOn {
					k := failAfter
					if k > len(b) {
						k = len(b)
					}
					w.Write(b[:k])
					return stubErr
				}
				_, err = w.Write(b)
				return err
			}
		}
	}
	for _, t := range types {
		switch modes[t] {
		case mReal:
			switch t {
			case "text/css":
				m.Add(t, &css.Minifier{})
			case "image/svg+xml":
				m.Add(t, &svg.Minifier{})
			case "text/html":
				m.Add(t, &html.Minifier{})
			case "application/javascript", "text/javascript", "module":
				m.AddFunc(t, func(mm *minify.M, w io.Writer, r io.Reader, p map[string]string) error {
					return DefaultOptions().JS.Minify(mm, w, r, p)
				})
			case "application/ld+json":
				m.AddFunc(t, func(mm *minify.M, w io.Writer, r io.Reader, p map[string]string) error {
					return DefaultOptions().JSON.Minify(mm, w, r, p)
				})
			case "application/mathml+xml":
				m.AddFunc(t, func(mm *minify.M, w io.Writer, r io.Reader, p map[string]string) error {
					return DefaultOptions().XML.Minify(mm, w, r, p)
				})
			}
		case mAbsent:
		default:
			m.AddFunc(t, mkStub(t, modes[t]))
		}
	}

	// the host minifier is called directly, so that the registry entry for the host's own
	// type can be configured independently (iframe content re-enters it)
	var hostMin minify.Minifier
	switch h.MT {
	case "text/html":
		hostMin = &html.Minifier{KeepSpecialComments: h.KeepCond}
	case "image/svg+xml":
		hostMin = &svg.Minifier{}
	default:
		hostMin = &css.Minifier{}
	}
	w := sim.NewSimWriter(nil)
	var hostErr error
	panicked := ""
	func() {
		defer func() {
			if r := recover(); r != nil {
				panicked = fmt.Sprint(r)
			}
		}()
		hostErr = hostMin.Minify(m, w, bytes.NewReader(append([]byte(nil), h.Doc...)), nil)
	}()
	outer := w.Buf

	var cfg []string
	for _, s := range h.Slots {
		cfg = append(cfg, fmt.Sprintf("%s[%s:%s]", s.Ctx, s.MT, modeNames[modes[s.MT]]))
	}
	out.Key = HashOf(h.Doc, strings.Join(cfg, ","), failOn, failAfter)
	out.Digest = HashOf(outer, errText(hostErr))
	out.Nontrivial = len(h.Slots) > 0
	out.stat("slots", int64(len(h.Slots)))
	out.stat("host_"+h.MT, 1)
	out.Sample = map[string]any{"host": h.MT, "slots": cfg, "doc": string(h.Doc)}
	fail := func(kind, site, detail string) *CaseOut {
		out.V = &sim.Violation{Kind: kind, Site: site, Detail: detail + fmt.Sprintf("\nconfig: %v failOn=%d\nhost document: %q\nouter output: %q outer error: %v", cfg, failOn, h.Doc, outer, hostErr)}
		return out
	}
	if panicked != "" {
		return fail("panic", h.MT, panicked)
	}

	// walk the slots in document order and predict what must have happened
	ci := 0
	pos := 0 // search position in the outer output (order of substitutions)
	stubFailed := false
	for _, s := range h.Slots {
		mode := modes[s.MT]
		site := s.Ctx + ":" + modeNames[mode]
		out.stat("ctx_"+s.Ctx+"_"+modeNames[mode], 1)
		wantParams := s.Params
		if s.Inline {
			wantParams = map[string]string{"inline": "1"}
		}
		switch mode {
		case mRec, mIdent, mFail:
			if ci >= len(calls) {
				return fail("not-dispatched", site, fmt.Sprintf("the %s payload %q was never handed to the minifier registered for %s", s.Ctx, s.Payload, s.MT))
			}
			c := calls[ci]
			ci++
			if c.Stub != s.MT {
				return fail("wrong-minifier", site, fmt.Sprintf("payload of %s went to the minifier for %s, expected %s", s.Ctx, c.Stub, s.MT))
			}
			if !bytes.Equal(bytes.TrimSpace(c.Payload), bytes.TrimSpace(s.Payload)) {
				return fail("payload-differs", site, fmt.Sprintf("minifier for %s received %q, the embedded bytes are %q", s.MT, c.Payload, s.Payload))
			}
			if (s.Via != "datauri" || s.Params != nil) && !paramsEqual(c.Params, wantParams) {
				return fail("params-differ", site, fmt.Sprintf("minifier for %s received params %v, expected %v", s.MT, c.Params, wantParams))
			}
			if mode == mFail && counts[s.MT] >= failOn && !stubFailed {
				// was this the failing invocation?
				nth := 0
				for _, cc := range calls[:ci] {
					if cc.Stub == s.MT {
						nth++
					}
				}
				if nth == failOn {
					stubFailed = true
					if !errors.Is(hostErr, stubErr) {
						if s.Via == "datauri" {
							return fail("embedded-failure-swallowed", "datauri", fmt.Sprintf("the minifier for the %s payload failed but the outer call returned %v", s.Ctx, hostErr))
						}
						return fail("embedded-failure-swallowed", site, fmt.Sprintf("the embedded minifier for %s failed but the outer call returned %v", s.Ctx, hostErr))
					}
					out.stat("probe_embedded_failure_propagated", 1)
				}
			}
			if stubFailed {
				break
			}
			if mode == mRec && (s.Via != "datauri" || len(c.Marker) < len(s.Payload)) {
				i := bytes.Index(outer[pos:], []byte(c.Marker))
				if i < 0 {
					return fail("not-substituted", site, fmt.Sprintf("the output of the minifier for %s (%q) does not appear (in order) in the outer output", s.Ctx, c.Marker))
				}
				pos += i + len(c.Marker)
			}
			if mode == mIdent && !s.Attr && s.Via == "" {
				i := bytes.Index(outer[pos:], bytes.TrimSpace(s.Payload))
				if i < 0 {
					return fail("not-substituted", site, fmt.Sprintf("identity minifier: payload %q of %s does not appear unchanged in the outer output", s.Payload, s.Ctx))
				}
				pos += i + len(bytes.TrimSpace(s.Payload))
			}
		case mAbsent:
			if !s.Attr && s.Via == "" {
				i := bytes.Index(outer[pos:], bytes.TrimSpace(s.Payload))
				if i < 0 && hostErr == nil {
					return fail("passthrough-differs", site, fmt.Sprintf("no minifier for %s: payload %q of %s must pass through unchanged", s.MT, s.Payload, s.Ctx))
				}
				if i >= 0 {
					pos += i + len(bytes.TrimSpace(s.Payload))
				}
			}
			out.stat("probe_absent_minifier", 1)
		case mReal:
			if s.Quoting && hostErr == nil {
				// "correctly re-escaped for the host syntax": the CSS output must lex into URL
				// tokens, and one of them must carry exactly the standalone minification
				var sw bytes.Buffer
				if err := realM.MinifyMimetype([]byte("image/svg+xml"), &sw, bytes.NewReader(s.Payload), nil); err == nil {
					found, badURL := false, false
					l := pcss.NewLexer(parse.NewInputBytes(append([]byte(nil), outer...)))
					for {
						tt, data := l.Next()
						if tt == pcss.ErrorToken {
							break
						}
						if tt == pcss.BadURLToken {
							badURL = true
						}
						if tt == pcss.URLToken && len(data) > 5 {
							u := bytes.TrimSpace(data[4 : len(data)-1])
							if len(u) > 1 && (u[0] == '"' || u[0] == '\'') {
								u = u[1 : len(u)-1]
							}
							if _, dec, err := parse.DataURI(append([]byte(nil), u...)); err == nil && bytes.Equal(dec, sw.Bytes()) {
								found = true
							}
						}
					}
					out.stat("probe_css_url_relexed", 1)
					if badURL || !found {
						return fail("host-escaping", site, fmt.Sprintf("the data: URL in the CSS output does not lex as a URL token that decodes to the SVG minifier's output %q (bad-url token seen: %v)", sw.Bytes(), badURL))
					}
				}
			}
			if bad || s.Attr || s.Via != "" {
				break
			}
			// commutation: the element content equals the standalone minifier's output
			var sw bytes.Buffer
			if err := realM.MinifyMimetype([]byte(canonMT(s.MT)), &sw, bytes.NewReader(s.Payload), wantParams); err != nil {
				break
			}
			i := bytes.Index(outer[pos:], sw.Bytes())
			if i < 0 && hostErr == nil {
				return fail("commutation", site, fmt.Sprintf("standalone minifier gives %q for the %s payload, which does not appear (in order) in the outer output", sw.Bytes(), s.Ctx))
			}
			if i >= 0 {
				pos += i + sw.Len()
				out.stat("probe_commutation_checked", 1)
			}
		}
		if stubFailed {
			break
		}
	}
	if !stubFailed && ci != len(calls) && !bad {
		c := calls[ci]
		return fail("unexpected-dispatch", h.MT, fmt.Sprintf("stub for %s was invoked with %q although the host has no such embedded content at this position", c.Stub, c.Payload))
	}
	if !stubFailed && !bad && hostErr != nil {
		return fail("unexpected-error", h.MT, "the outer call failed although no embedded minifier failed: "+hostErr.Error())
	}
	if bad {
		// a real syntax error in an embedded script: the outer call must fail with an
		// error located inside the embedded construct
		var badSlot *c11Slot
		for i := range h.Slots {
			s := &h.Slots[i]
			for _, b := range c11BadPayloads[canonMT(s.MT)] {
				if string(s.Payload) == b {
					badSlot = s
				}
			}
			if badSlot != nil {
				break
			}
		}
		if badSlot != nil {
			if hostErr == nil {
				return fail("embedded-failure-swallowed", badSlot.Ctx+":real", fmt.Sprintf("the %s payload %q is rejected by its minifier but the outer call succeeded", badSlot.Ctx, badSlot.Payload))
			}
			var pe *parse.Error
			if errors.As(hostErr, &pe) {
				off := offsetOf(h.Doc, pe.Line, pe.Column)
				out.stat("probe_located_error_checked", 1)
				lo, hi := badSlot.Start, badSlot.End
				if badSlot.ErrEnd > 0 {
					lo, hi = badSlot.ErrStart, badSlot.ErrEnd
					out.stat("probe_located_error_inside_conditional_comment", 1)
				}
				if off < lo-1 || off > hi+1 {
					return fail("error-position", badSlot.Ctx+":real", fmt.Sprintf("error reported at line %d column %d (offset %d), the failing construct spans offsets %d..%d of the outer document", pe.Line, pe.Column, off, lo, hi))
				}
			}
		}
	}
	return out
}

func canonMT(mt string) string {
	if mt == "text/javascript" || mt == "module" {
		return "application/javascript"
	}
	return mt
}

// offsetOf converts a 1-based line/column (columns count bytes here: the test documents
// are ASCII) to a byte offset.
// offsetOf turns a reported (line, column) into a byte offset, with the convention the parse
// library documents for its positions: lines end at \n, \r\n, \r (and U+2028 / U+2029),
// columns count characters, not bytes.
func offsetOf(doc []byte, line, col int) int {
	off := 0
	for l := 1; l < line; {
		if off >= len(doc) {
			return len(doc)
		}
		r, n := utf8.DecodeRune(doc[off:])
		off += n
		switch {
		case r == '\n' || r == '\u2028' || r == '\u2029':
			l++
		case r == '\r':
			if off < len(doc) && doc[off] == '\n' {
				off++
			}
			l++
		}
	}
	for c := 1; c < col && off < len(doc); c++ {
		_, n := utf8.DecodeRune(doc[off:])
		off += n
	}
	return off
}

func c11Search(s *Search) {
	for i := s.Base(); s.More(); i++ {
		if !s.Mine(int(i)) {
			continue
		}
		s.TryRandom(i)
	}
}

func init() {
	props["C11"] = &propDef{Search: c11Search, Case: c11Case, Stream: "C11"}
}
