package lib

import (
	"bytes"
	"fmt"
	"os"

	"verif/corpus"
	"verif/sim"
)

// C10 (the part a fault-injecting simulator reaches): documents as a misbehaving transport
// or collaborator delivers them — cut short, with a chunk lost, duplicated or swapped, a
// byte flipped, a reader/writer that starts failing, a failing embedded minifier — through
// every entry point and with extreme options: the call must return (output or error)
// without panic and within bounded work, and Bytes/String must hand back the caller's data
// unchanged on error.

const (
	sfTruncate = iota
	sfDrop
	sfDup
	sfSwap
	sfFlip
	sfReadErr
	sfWriteErr
	sfSplice
	sfTokenSplice
	nStreamFaults
)

var sfNames = [...]string{"truncate", "drop-chunk", "duplicate-chunk", "swap-chunks", "flip-byte", "reader-error", "writer-error", "splice-from-other-document", "splice-whole-token"}

// markupPos picks a position biased to just after markup characters / inside tokens.
func markupPos(tape *sim.Tape, b []byte) int {
	if len(b) == 0 {
		return 0
	}
	if tape.Draw(3) == 0 {
		// the last few bytes
		k := len(b) - 1 - tape.Draw(min(len(b), 4))
		if k < 0 {
			k = 0
		}
		return k
	}
	p := tape.Draw(len(b))
	if tape.Draw(2) == 0 {
		for i := p; i < len(b) && i < p+64; i++ {
			switch b[i] {
			case '<', '>', '"', '\'', '=', '{', '(', '[', ':', '/', '!', '-', '?', '\\', '&', '#', '.', 'e', 'E':
				return i + 1 - tape.Draw(2)
			}
		}
	}
	return p
}

func applyStreamFault(tape *sim.Tape, kind int, b []byte) []byte {
	n := len(b)
	if n == 0 {
		return b
	}
	chunk := func() (int, int) {
		a := markupPos(tape, b)
		l := 1 + tape.Draw(16)
		if tape.Draw(4) == 0 {
			l = 1 + tape.Draw(512)
		}
		if a+l > n {
			l = n - a
		}
		return a, a + l
	}
	switch kind {
	case sfTruncate:
		return append([]byte(nil), b[:markupPos(tape, b)]...)
	case sfDrop:
		a, e := chunk()
		return append(append([]byte(nil), b[:a]...), b[e:]...)
	case sfDup:
		a, e := chunk()
		out := append([]byte(nil), b[:e]...)
		reps := 1
		if tape.Draw(8) == 0 {
			reps = 2 + tape.Draw(64) // a retransmission storm: deep nesting from repeated openers
			if e-a <= 8 && tape.Draw(2) == 0 {
				// a tiny chunk repeated thousands of times: crosses the size / depth / count
				// thresholds behind which minifiers switch strategy
				reps = 1000 + tape.Draw(12000)
			}
		}
		for i := 0; i < reps; i++ {
			out = append(out, b[a:e]...)
		}
		return append(out, b[e:]...)
	case sfSwap:
		a, e := chunk()
		l := e - a
		if e+l > n {
			return append([]byte(nil), b...)
		}
		out := append([]byte(nil), b[:a]...)
		out = append(out, b[e:e+l]...)
		out = append(out, b[a:e]...)
		return append(out, b[e+l:]...)
	case sfFlip:
		out := append([]byte(nil), b...)
		k := markupPos(tape, b)
		if k >= n {
			k = n - 1
		}
		switch tape.Draw(4) {
		case 0:
			out[k] ^= 1 << uint(tape.Draw(8))
		case 1:
			out[k] = 0
		case 2:
			out[k] = 0xFF
		default:
			out[k] = byte(tape.Draw(256))
		}
		return out
	}
	return b
}

func isMarkup(mt string) bool {
	return mt == "text/html" || mt == "image/svg+xml" || mt == "text/xml"
}

// wholeToken cuts one token out of b: for markup a '<'…'>' run (comments, CDATA and PIs up
// to their own terminator), otherwise the text between two statement/member delimiters.
func wholeToken(tape *sim.Tape, b []byte, mt string) []byte {
	p := tape.Draw(len(b))
	if isMarkup(mt) {
		i := bytes.IndexByte(b[p:], '<')
		if i < 0 {
			i = bytes.IndexByte(b, '<')
			p = 0
			if i < 0 {
				return nil
			}
		}
		s := p + i
		end := ">"
		switch {
		case bytes.HasPrefix(b[s:], []byte("<!--")):
			end = "-->"
		case bytes.HasPrefix(b[s:], []byte("<![CDATA[")):
			end = "]]>"
		case bytes.HasPrefix(b[s:], []byte("<?")):
			end = "?>"
		}
		j := bytes.Index(b[s:], []byte(end))
		if j < 0 || j > 512 {
			return nil
		}
		return b[s : s+j+len(end)]
	}
	const delims = ";{},\n"
	s := p
	for s > 0 && !bytes.ContainsRune([]byte(delims), rune(b[s-1])) {
		s--
	}
	e := p
	for e < len(b) && !bytes.ContainsRune([]byte(delims), rune(b[e])) {
		e++
	}
	if e < len(b) {
		e++
	}
	if e-s > 512 {
		return nil
	}
	return b[s:e]
}

// tokenBoundary picks a position right after a token of b.
func tokenBoundary(tape *sim.Tape, b []byte, mt string) int {
	if len(b) == 0 {
		return 0
	}
	p := tape.Draw(len(b))
	set := ";{},\n"
	if isMarkup(mt) {
		set = ">"
	}
	for i := p; i < len(b); i++ {
		if bytes.IndexByte([]byte(set), b[i]) >= 0 {
			return i + 1
		}
	}
	return len(b)
}

var c10Entries = []int{EPlain, EBytes, EString, EReader, EWriter, EDirect}

// CurrentSite is what the hang watchdog reports.
var CurrentSite string

func c10Case(env *Env, tape *sim.Tape) *CaseOut {
	d := tape.Draw(96)
	if os.Getenv("VERIF_C10_MODE") == "scaling" {
		d = 2 // enumeration of the sites of superlinear work (tools, not the registered check)
	}
	switch {
	case d < 2 || d >= 92: // one case in 16 (91 is the enumerable scaling probe)
		return c10TokenBuffer(env, tape)
	case d < 3:
		return c10Scaling(env, tape)
	case d == 91:
		return c10ScalingAt(env, tape)
	case d == 3 || d == 90:
		return c10HelperPkg(env, tape)
	case d >= 4 && d < 10: // one case in 16
		return c10JSGrammar(env, tape)
	}
	out := &CaseOut{}
	di := tape.Draw(len(env.Corpus))
	doc := env.Corpus[di]
	embed := tape.Draw(4) == 0
	entry := c10Entries[tape.Draw(len(c10Entries))]
	opts := DefaultOptions()
	extreme := tape.Draw(3) == 0
	if extreme {
		opts = drawOptions(tape)
		p := []int{-1, 0, 1, 20, 1 << 30, -(1 << 30), int(^uint(0) >> 1), -int(^uint(0)>>1) - 1}[tape.Draw(8)]
		opts.CSS.Precision, opts.JS.Precision, opts.JSON.Precision, opts.SVG.Precision = p, p, p, p
		opts.HTML.KeepConditionalComments = false
	}
	nf := 1 + tape.Draw(3)
	data := doc.Data
	var applied []string
	readErrAt, writeErrAt := -1, -1
	for i := 0; i < nf; i++ {
		k := tape.Draw(nStreamFaults)
		switch k {
		case sfReadErr:
			readErrAt = tape.Draw(len(data) + 1)
		case sfWriteErr:
			writeErrAt = tape.Draw(64)
		case sfSplice:
			// a piece of another document of the same type lands in this stream (two
			// responses mixed up by a transport): constructs meet that no single test has
			other := env.Corpus[tape.Draw(len(env.Corpus))]
			for tries := 0; tries < 8 && other.MT != doc.MT; tries++ {
				other = env.Corpus[tape.Draw(len(env.Corpus))]
			}
			if other.MT == doc.MT && len(other.Data) > 0 && len(other.Data) < 1<<16 {
				a := markupPos(tape, other.Data)
				l := 1 + tape.Draw(96)
				if a+l > len(other.Data) {
					l = len(other.Data) - a
				}
				at := markupPos(tape, data)
				if at > len(data) {
					at = len(data)
				}
				nd := append([]byte(nil), data[:at]...)
				nd = append(nd, other.Data[a:a+l]...)
				data = append(nd, data[at:]...)
			}
		case sfTokenSplice:
			// a whole token of another document of the same type (a tag, a comment, a CDATA
			// section, a processing instruction; a statement / declaration / member for the
			// non-markup types) lands at a token boundary of this one: the result is still
			// well-formed locally, so it reaches branches behind the tokenizer
			other := env.Corpus[tape.Draw(len(env.Corpus))]
			for tries := 0; tries < 8 && other.MT != doc.MT; tries++ {
				other = env.Corpus[tape.Draw(len(env.Corpus))]
			}
			if other.MT == doc.MT && len(other.Data) > 0 && len(other.Data) < 1<<16 {
				if tok := wholeToken(tape, other.Data, doc.MT); len(tok) > 0 {
					at := tokenBoundary(tape, data, doc.MT)
					nd := append([]byte(nil), data[:at]...)
					nd = append(nd, tok...)
					data = append(nd, data[at:]...)
				}
			}
		default:
			data = applyStreamFault(tape, k, data)
		}
		applied = append(applied, sfNames[k])
		out.stat("fault_"+sfNames[k], 1)
	}
	mt := doc.MT
	if embed {
		d2 := doc
		d2.Data = data
		if emt, edata, ok := embedDoc(d2); ok {
			mt, data = emt, edata
			out.stat("probe_fault_inside_embedded_document", 1)
		}
	}
	if len(data) > 1<<20 {
		data = data[:1<<20]
	}
	site := fmt.Sprintf("%s:%s", entryName(entry), mt)
	CurrentSite = site
	orig := append([]byte(nil), data...)

	op := &Op{Entry: entry, MT: mt, In: data, UseBytes: tape.Draw(3) == 0}
	op.W = sim.NewSimWriter(nil)
	op.R = sim.NewSimReader(nil, data)
	op.R.Chunks = drawChunks(tape, len(data), 8)
	op.WriteChunks = drawChunks(tape, len(data), 8)
	if readErrAt >= 0 && readErrAt <= len(data) {
		op.R.FailAt, op.R.FailErr, op.R.FailWithData = readErrAt, sim.ErrInjectedRead, tape.Draw(2) == 0
		op.UseBytes = false
	}
	if writeErrAt >= 0 {
		op.W.FailAt, op.W.FailErr, op.W.Short = writeErrAt, sim.ErrInjectedWrite, tape.Draw(2) == 0
	}
	if entry == EDirect {
		op.Direct = opts.direct(doc.MT)
		if op.Direct == nil || embed {
			op.Entry, entry = EPlain, EPlain
		}
	}
	m := NewRegistry(opts)
	var sv *sim.Violation
	var st RunStats
	if entry == EReader || entry == EWriter {
		budget := 64*(len(data)+16) + 4096
		sv, st = RunTasks(env.T, tape, m, [][]*Op{{op}}, 1, budget, false)
	} else {
		op.Exec(nil, m)
	}
	CurrentSite = ""

	out.Key = HashOf(di, entry, embed, data, readErrAt, writeErrAt, opts.String())
	out.TraceHash = st.TraceHash
	out.Digest = HashOf(op.Out, op.W.Buf, errText(op.Err), errText(op.CloseErr))
	out.Nontrivial = true
	out.stat("entry_"+entryName(entry), 1)
	if extreme {
		out.stat("probe_extreme_options", 1)
	}
	out.Sample = map[string]any{"doc": doc.Name, "media_type": mt, "entry": entryName(entry), "stream_faults": applied,
		"reader_error_after": readErrAt, "writer_fails_from_call": writeErrAt, "delivered": corpus.Short(data, 80), "options_extreme": extreme}
	fail := func(kind, detail string) *CaseOut {
		out.V = &sim.Violation{Kind: kind, Site: site, Detail: detail + fmt.Sprintf(" [doc=%s faults=%v readErrAt=%d writeErrAt=%d options=%s delivered=%q]",
			doc.Name, applied, readErrAt, writeErrAt, opts.String(), corpus.Short(data, 160))}
		return out
	}
	if op.Panic != "" {
		return fail("panic", op.Panic)
	}
	if sv != nil {
		return fail(sv.Kind, sv.Detail)
	}
	if !op.Finished {
		return fail("deadlock", "the entry point never returned")
	}
	if st.Leak != "" && entry == EWriter {
		return fail("goroutine-left-blocked", st.Leak)
	}
	// bounded work: writes and bytes proportional to the input
	lim := 64*len(data) + 8192
	if op.W.Calls > lim || len(op.W.Buf) > lim {
		return fail("unbounded-output", fmt.Sprintf("%d Write calls / %d bytes written for %d input bytes", op.W.Calls, len(op.W.Buf), len(data)))
	}
	// Bytes / String: on error the caller's data comes back unchanged
	if entry == EBytes || entry == EString {
		if op.Err != nil {
			out.stat("probe_helper_returned_error", 1)
			if !bytes.Equal(op.Out, orig) {
				return fail("input-not-handed-back", fmt.Sprintf("%s reported %q and returned %d bytes %q, which is not the caller's data %q",
					entryName(entry), errText(op.Err), len(op.Out), corpus.Short(op.Out, 100), corpus.Short(orig, 100)))
			}
		}
	}
	if op.Err != nil || op.CloseErr != nil {
		out.stat("runs_ending_in_error", 1)
	}
	return out
}

func c10Search(s *Search) {
	// thorough tier: every unit of up to 4 bytes (6 for documents of up to 40 bytes) of every
	// document of up to 64 bytes (the rows
	// of the tree's test tables), repeated in place, plain and numbered: the scaling probe
	// enumerated over a bounded family instead of sampled
	if s.Env.Tier == "thorough" && os.Getenv("VERIF_RANDOM_ONLY") == "" && os.Getenv("VERIF_C10_MODE") == "" {
		idx := uint64(1) << 40
		for di, doc := range s.Env.Corpus {
			if !s.Mine(di) || len(doc.Data) == 0 || len(doc.Data) > 64 {
				continue
			}
			for a := 0; a < len(doc.Data) && s.More(); a++ {
				maxL := 4
				if len(doc.Data) <= 40 {
					maxL = 6 // " none", "0 0 ", "a,b," - a word and its separator
				}
				for l := 1; l <= maxL && a+l <= len(doc.Data); l++ {
					for numbered := uint64(0); numbered < 2; numbered++ {
						idx++
						s.Try(idx, sim.ReplayTape([]uint64{91, uint64(di), uint64(a), uint64(l - 1), numbered, 0}))
					}
				}
			}
		}
	}
	for i := s.Base(); s.More(); i++ {
		if !s.Mine(int(i)) {
			continue
		}
		s.TryRandom(i)
	}
}

func init() {
	props["C10"] = &propDef{Search: c10Search, Case: c10Case, Stream: "C10"}
}
