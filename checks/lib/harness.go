// Package lib is libsim: it drives the public API of the real minify packages (imported
// from /repo through the module replace, with minify.go's sync import rerouted by a build
// overlay) with simulated callers, readers, writers and sub-minifiers under the seeded
// scheduler of package sim.
package lib

import (
	"encoding/json"
	"fmt"
	"hash/fnv"
	"os"
	"sort"
	"strconv"
	"testing"
	"testing/synctest"
	"time"

	"verif/corpus"
	"verif/sim"
)

// Env is what the driver tells a shard process (all through environment variables, so
// that the same binary serves search, replay and shrinking).
type Env struct {
	Prop     string
	Tier     string
	Seed     uint64
	Shard    int
	NShards  int
	Out      string
	Replay   string
	Budget   time.Duration
	MaxCases int
	Corpus   []corpus.Doc
	start    time.Time
	T        *testing.T
}

// CaseOut is the result of one simulated case.
type CaseOut struct {
	V          *sim.Violation
	Key        uint64 // identity of the case for "distinct" counting (scenario+schedule)
	Nontrivial bool
	Sample     any
	Stats      map[string]int64
	Digest     uint64 // hash of every library output of the case (cross-process determinism)
	TraceHash  uint64 // hash of the schedule (simulator self-test)
}

func (o *CaseOut) stat(k string, n int64) {
	if o.Stats == nil {
		o.Stats = map[string]int64{}
	}
	o.Stats[k] += n
}

// Replay is the replay file format.
type Replay struct {
	Property  string        `json:"property"`
	Tier      string        `json:"tier"`
	Seed      uint64        `json:"seed"`
	Stream    string        `json:"stream"`
	Case      uint64        `json:"case"`
	Tape      []uint64      `json:"tape"`
	Violation sim.Violation `json:"violation"`
	Random    bool          `json:"random,omitempty"` // tape = NewTape(seed, stream, case)
	OrigTape  int           `json:"orig_tape_len"`
	Engine    string        `json:"engine"`
	// FromRandom: the case was random-search case number Case (its tape can be rebuilt from
	// seed, stream and index). WarmUp: the violation shows only after the earlier cases of the
	// same shard have run in the same process (state carried between documents): a replay
	// first runs the random cases From..Case-1 of that shard, then the case itself.
	FromRandom bool    `json:"from_random,omitempty"`
	WarmUp     *WarmUp `json:"warm_up,omitempty"`
}

type WarmUp struct {
	From    uint64 `json:"from"`
	Shard   int    `json:"shard"`
	NShards int    `json:"nshards"`
}

// ShardResult is what a shard writes for the driver to aggregate.
type ShardResult struct {
	Prop       string           `json:"prop"`
	Shard      int              `json:"shard"`
	Cases      int64            `json:"cases"`
	Stats      map[string]int64 `json:"stats"`
	Distinct   []uint64         `json:"distinct"`
	DistinctN  int64            `json:"distinct_n"`
	Samples    []any            `json:"samples"`
	Violations []Replay         `json:"violations"`
	WallS      float64          `json:"wall_s"`
	Exhaustive bool             `json:"exhaustive"`
	Notes      []string         `json:"notes"`
	// Digests (VERIF_DIGESTS=1): case index -> [output digest, schedule hash]
	Digests map[string][2]uint64 `json:"digests,omitempty"`
}

// CaseFunc runs one case decided entirely by the tape.
type CaseFunc func(env *Env, tape *sim.Tape) *CaseOut

// Search collects results of a shard.
type Search struct {
	Env      *Env
	F        CaseFunc
	Stream   string
	Res      *ShardResult
	distinct map[uint64]struct{}
	vkeys    map[string]bool
	status   *os.File
	digests  bool
	// curRandom: the case being tried came from TryRandom
	curRandom bool
}

// noteStatus records which case is about to run, so that the driver can attribute a
// process crash (race report, panic in a library goroutine) to a case and replay it.
func (s *Search) noteStatus(index uint64, tape *sim.Tape, random bool) {
	if s.status == nil {
		p := os.Getenv("VERIF_STATUS")
		if p == "" {
			return
		}
		f, err := os.OpenFile(p, os.O_CREATE|os.O_WRONLY|os.O_TRUNC, 0o644)
		if err != nil {
			return
		}
		s.status = f
	}
	var b []byte
	if random {
		b = []byte(fmt.Sprintf(`{"index":%d,"random":true}`, index))
	} else {
		vb, _ := json.Marshal(tape.Vals)
		b = []byte(fmt.Sprintf(`{"index":%d,"vals":%s}`, index, vb))
	}
	b = append(b, '\n')
	s.status.WriteAt(b, 0)
	s.status.Truncate(int64(len(b)))
}

// TryRandom runs the random-search case number index.
func (s *Search) TryRandom(index uint64) *CaseOut {
	s.noteStatus(index, nil, true)
	s.curRandom = true
	defer func() { s.curRandom = false }()
	return s.try(index, sim.NewTape(s.Env.Seed, s.Stream, index))
}

// Try runs one case with an explicit tape.
func (s *Search) Try(index uint64, tape *sim.Tape) *CaseOut {
	s.noteStatus(index, tape, false)
	return s.try(index, tape)
}

func NewSearch(env *Env, stream string, f CaseFunc) *Search {
	return &Search{Env: env, F: f, Stream: stream,
		Res:      &ShardResult{Prop: env.Prop, Shard: env.Shard, Stats: map[string]int64{}},
		distinct: map[uint64]struct{}{}, vkeys: map[string]bool{}}
}

// More reports whether the shard's budget allows another case.
func (s *Search) More() bool {
	if s.Env.MaxCases > 0 && s.Res.Cases >= int64(s.Env.MaxCases) {
		return false
	}
	return time.Since(s.Env.start) < s.Env.Budget
}

// Base is the first random case index of this process: the driver restarts race-built
// workers in rounds (the Go race runtime never frees the timer context of a synctest
// bubble, about 85 KB per bubble) and gives each round its own index range.
func (s *Search) Base() uint64 { return envUint("VERIF_INDEX_BASE", 0) }

// Mine reports whether index i belongs to this shard.
func (s *Search) Mine(i int) bool { return i%s.Env.NShards == s.Env.Shard }

// try runs one case and accounts for it; a violation is shrunk and recorded.
func (s *Search) try(index uint64, tape *sim.Tape) *CaseOut {
	// watchdog for "returns within time proportional to the input": a case normally takes
	// micro- to milliseconds; one that is still running after the limit is reported by the
	// driver as a hang only if it hangs again when replayed alone.
	wd := time.AfterFunc(hangLimit(), func() {
		fmt.Fprintf(os.Stderr, "\nVERIF-HANG site=%s\n", CurrentSite)
		os.Exit(67)
	})
	out := s.F(s.Env, tape)
	wd.Stop()
	s.Res.Cases++
	for k, v := range out.Stats {
		s.Res.Stats[k] += v
	}
	if s.digests {
		if s.Res.Digests == nil {
			s.Res.Digests = map[string][2]uint64{}
		}
		s.Res.Digests[strconv.FormatUint(index, 10)] = [2]uint64{out.Digest, out.TraceHash}
	}
	if out.Nontrivial {
		if _, ok := s.distinct[out.Key]; !ok {
			s.distinct[out.Key] = struct{}{}
			if len(s.Res.Samples) < 3 && out.Sample != nil {
				s.Res.Samples = append(s.Res.Samples, out.Sample)
			}
		}
	}
	if out.V != nil {
		key := out.V.Key()
		if !s.vkeys[key] && len(s.Res.Violations) < 5 {
			s.vkeys[key] = true
			orig := tape.Recorded()
			// the candidates run under the same watchdog as the cases
			guarded := func(v []uint64) *CaseOut {
				wd := time.AfterFunc(hangLimit(), func() {
					fmt.Fprintf(os.Stderr, "\nVERIF-HANG site=%s\n", CurrentSite)
					os.Exit(67)
				})
				defer wd.Stop()
				return s.F(s.Env, sim.ReplayTape(v))
			}
			candidates := 400
			if out.V.Kind == "superlinear-work" {
				candidates = 12 // each candidate is three runs on inputs up to 100 KB of a slow path
			}
			min := sim.Shrink(orig, func(v []uint64) bool {
				o := guarded(v)
				return o.V != nil && o.V.Key() == key
			}, candidates)
			final := guarded(min)
			v := out.V
			if final.V != nil && final.V.Key() == key {
				v = final.V
			} else {
				min = orig
			}
			s.Res.Violations = append(s.Res.Violations, Replay{Property: s.Env.Prop, Tier: s.Env.Tier, Seed: s.Env.Seed,
				Stream: s.Stream, Case: index, Tape: min, Violation: *v, OrigTape: len(orig), Engine: "libsim", FromRandom: s.curRandom})
		}
	}
	return out
}

func (s *Search) Finish() {
	s.Res.DistinctN = int64(len(s.distinct))
	keys := make([]uint64, 0, len(s.distinct))
	for k := range s.distinct {
		keys = append(keys, k)
	}
	sort.Slice(keys, func(i, j int) bool { return keys[i] < keys[j] })
	if len(keys) > 200000 {
		keys = keys[:200000]
	}
	s.Res.Distinct = keys
	s.Res.WallS = time.Since(s.Env.start).Seconds()
}

// Hash helper for case keys.
func HashOf(parts ...any) uint64 {
	h := fnv.New64a()
	for _, p := range parts {
		switch v := p.(type) {
		case []byte:
			h.Write(v)
		case string:
			h.Write([]byte(v))
		default:
			fmt.Fprint(h, v)
		}
		h.Write([]byte{0})
	}
	return h.Sum64()
}

// InBubble runs f inside a synctest bubble and converts the end-of-bubble deadlock
// panic (goroutines left blocked by an aborted run) into a return value.
func InBubble(t *testing.T, f func()) (leak string) {
	defer func() {
		if r := recover(); r != nil {
			leak = fmt.Sprint(r)
		}
	}()
	synctest.Test(t, func(*testing.T) { f() })
	return ""
}

// props maps a property id to its shard routine and its case function.
type propDef struct {
	Search func(s *Search)
	Case   CaseFunc
	Stream string
}

var props = map[string]*propDef{}

func hangLimit() time.Duration {
	return time.Duration(envUint("VERIF_HANG_MS", 60000)) * time.Millisecond
}

func envUint(name string, def uint64) uint64 {
	if v := os.Getenv(name); v != "" {
		n, err := strconv.ParseUint(v, 10, 64)
		if err == nil {
			return n
		}
		if m, err := strconv.ParseInt(v, 10, 64); err == nil {
			return uint64(m)
		}
	}
	return def
}

func infra(format string, a ...any) {
	fmt.Fprintf(os.Stderr, "INFRA: "+format+"\n", a...)
	os.Exit(2)
}

// RunFromEnv is the entry of the test binary.
func RunFromEnv(t *testing.T) {
	prop := os.Getenv("VERIF_PROP")
	if prop == "" {
		t.Skip("VERIF_PROP not set: this binary is driven by /verif/verif")
	}
	def, ok := props[prop]
	if !ok {
		infra("unknown property %q", prop)
	}
	env := &Env{Prop: prop, Tier: os.Getenv("VERIF_TIER"), Seed: envUint("VERIF_SEED", 1),
		Shard: int(envUint("VERIF_SHARD", 0)), NShards: int(envUint("VERIF_NSHARDS", 1)),
		Out: os.Getenv("VERIF_OUT"), Replay: os.Getenv("VERIF_REPLAY"),
		Budget:   time.Duration(envUint("VERIF_BUDGET_MS", 20000)) * time.Millisecond,
		MaxCases: int(envUint("VERIF_MAXCASES", 0)), start: time.Now(), T: t}
	if env.Tier == "" {
		env.Tier = "quick"
	}
	if cp := os.Getenv("VERIF_CORPUS"); cp != "" {
		docs, err := corpus.Load(cp)
		if err != nil {
			infra("corpus: %v", err)
		}
		env.Corpus = docs
	} else {
		env.Corpus = corpus.Builtin()
	}
	env.Corpus = append(ShortDocs(), env.Corpus...)
	if env.Replay != "" {
		b, err := os.ReadFile(env.Replay)
		if err != nil {
			infra("replay file: %v", err)
		}
		var rp Replay
		if err := json.Unmarshal(b, &rp); err != nil {
			infra("replay file: %v", err)
		}
		if cf := os.Getenv("VERIF_STATUS"); cf != "" {
			os.WriteFile(cf, []byte(fmt.Sprintf("replay %s\n", env.Replay)), 0o644)
		}
		tape := sim.ReplayTape(rp.Tape)
		if rp.Random {
			tape = sim.NewTape(rp.Seed, rp.Stream, rp.Case)
		}
		if w := rp.WarmUp; w != nil && w.NShards > 0 {
			// rebuild the state of the process: the earlier random cases of the same shard
			n := 0
			for i := w.From; i < rp.Case; i++ {
				if int(i%uint64(w.NShards)) == w.Shard {
					def.Case(env, sim.NewTape(rp.Seed, rp.Stream, i))
					n++
				}
			}
			fmt.Printf("REPLAY warm-up: %d earlier cases of shard %d/%d run first\n", n, w.Shard, w.NShards)
		}
		if lp := os.Getenv("VERIF_TAPELOG"); lp != "" {
			if lf, err := os.OpenFile(lp, os.O_CREATE|os.O_WRONLY|os.O_TRUNC, 0o644); err == nil {
				tape.Log = func(v uint64) { fmt.Fprintf(lf, "%d\n", v) }
			}
		}
		wd := time.AfterFunc(hangLimit(), func() {
			fmt.Fprintf(os.Stderr, "\nVERIF-HANG site=%s\n", CurrentSite)
			os.Exit(67)
		})
		out := def.Case(env, tape)
		wd.Stop()
		res := map[string]any{"violation": out.V, "sample": out.Sample, "digest": strconv.FormatUint(out.Digest, 16)}
		jb, _ := json.MarshalIndent(res, "", " ")
		if env.Out != "" {
			os.WriteFile(env.Out, jb, 0o644)
		}
		fmt.Println(string(jb))
		if out.V != nil {
			fmt.Printf("REPLAYED violation kind=%s site=%s\n", out.V.Kind, out.V.Site)
		} else {
			fmt.Println("REPLAYED no violation")
		}
		return
	}
	s := NewSearch(env, def.Stream, def.Case)
	s.digests = os.Getenv("VERIF_DIGESTS") == "1"
	def.Search(s)
	s.Finish()
	jb, err := json.Marshal(s.Res)
	if err != nil {
		infra("marshal: %v", err)
	}
	if env.Out != "" {
		if err := os.WriteFile(env.Out, jb, 0o644); err != nil {
			infra("write result: %v", err)
		}
	} else {
		fmt.Println(string(jb))
	}
}

// ShortDocs are prepended to the corpus: inputs of at most 10 bytes for which every
// partition into chunks is enumerated, and inputs for the stub minifiers. Index 0 is the
// simplest document, which is what a shrunk tape converges on.
func ShortDocs() []corpus.Doc {
	mk := func(mt, s string) corpus.Doc {
		return corpus.Doc{MT: mt, Name: "short/" + s, Src: "builtin", Data: []byte(s)}
	}
	return []corpus.Doc{
		mk("text/html", "<p>a </p>"), mk("text/html", "<b> x</b>y"),
		mk("text/css", "a{b:c ;}"), mk("text/css", "a{b: 0px}"),
		mk("application/javascript", "a = 1 + 2"), mk("application/javascript", "var a= b;"),
		mk("application/json", "[1, 2.0 ]"), mk("application/json", `{"a" : 1}`),
		mk("image/svg+xml", "<svg> </svg>"), mk("image/svg+xml", "<svg><g/> "),
		mk("text/xml", "<a> b </a>"), mk("text/xml", "<a b = 'c'/>"),
		mk(MTStream, "streamed"), mk(MTStream, "hello streaming world, chunk by chunk, piece by piece"),
		mk(MTFail, "fails in the middle"),
		mk(MTEarly, "only the head of this document is read by its minifier, the rest is never consumed"),
		mk("application/javascript", "var x = ;"),
		// empty inputs: Close without any Write, Bytes(nil)
		// a UTF-8 byte order mark in front (whatever a minifier does with it, every entry point
		// and every chunking must do the same)
		mk("text/html", "\xef\xbb\xbf<p> a"), mk("text/css", "\xef\xbb\xbfa{ }"), mk("application/javascript", "\xef\xbb\xbfa =1"), mk(MTStream, "\xef\xbb\xbfbom"),
		mk(MTWrap, ""), mk(MTWrap, "wrapped"),
		mk("text/html", ""), mk("text/css", ""), mk("application/javascript", ""), mk("application/json", ""), mk("image/svg+xml", ""), mk("text/xml", ""),
		mk(MTFailEarly, "rejected at its first byte while the producer still has all of this to write, chunk after chunk"),
	}
}
