package lib

import (
	"fmt"
	"strings"

	mdefault "github.com/tdewolff/minify/v2/minify"

	"verif/corpus"
	"verif/sim"
)

// The tree ships one more set of string convenience entry points: package minify/v2/minify
// with CSS, HTML, SVG, JS, JSON and XML (string in, string and error out, over a registry
// with the default minifiers). C10 says of such entry points that they return without
// panicking and that, when they report an error, the caller's data comes back unchanged: a
// damaged document, sometimes behind a byte order mark or blanks (what a file read into a
// string starts with), goes in, and on error the very same string must come out.
var c10PkgFuncs = map[string]struct {
	name string
	f    func(string) (string, error)
}{
	"text/css":               {"CSS", mdefault.CSS},
	"text/html":              {"HTML", mdefault.HTML},
	"image/svg+xml":          {"SVG", mdefault.SVG},
	"application/javascript": {"JS", mdefault.JS},
	"application/json":       {"JSON", mdefault.JSON},
	"text/xml":               {"XML", mdefault.XML},
}

// documents every one of the six functions rejects or may reject, short enough to read in a report
var c10PkgBad = map[string][]string{
	"application/javascript": {"var = ;", "function ( {", "a = `x", "if (", "let let = 1"},
	"application/json":       {"{ \"a\" : }", "[ 1 , ", "{ a : 1 }", "nul"},
	"text/html":              {"<p>x</p><script>var = ;</script>", "<a onclick=\"if (\">x</a>", "<style>a{</style><script>function ( {</script>"},
	"image/svg+xml":          {"<svg><script>var = ;</script></svg>"},
	"text/css":               {"a { color : red", "@media {"},
	"text/xml":               {"<a><b></a>", "<?xml"},
}

func c10HelperPkg(env *Env, tape *sim.Tape) *CaseOut {
	out := &CaseOut{Nontrivial: true}
	var doc corpus.Doc
	ok := false
	for tries := 0; tries < 64 && !ok; tries++ {
		doc = env.Corpus[tape.Draw(len(env.Corpus))]
		_, ok = c10PkgFuncs[doc.MT]
		ok = ok && len(doc.Data) <= 64<<10
	}
	if !ok {
		out.Nontrivial = false
		return out
	}
	fn := c10PkgFuncs[doc.MT]
	data := doc.Data
	var applied []string
	if tape.Draw(3) == 0 {
		bads := c10PkgBad[doc.MT]
		data = []byte(bads[tape.Draw(len(bads))])
		applied = append(applied, "rejected-document")
	} else {
		for i, n := 0, tape.Draw(3); i < n; i++ {
			k := []int{sfTruncate, sfDrop, sfDup, sfSwap, sfFlip}[tape.Draw(5)]
			data = applyStreamFault(tape, k, data)
			applied = append(applied, sfNames[k])
		}
	}
	lead := []string{"", "", "\uFEFF", "\uFEFF", " ", "\n", "\uFEFF\n", "\xEF\xBB", "\x00"}[tape.Draw(9)]
	tail := []string{"", "", "", "\n", " ", "\x00", "\uFEFF"}[tape.Draw(7)]
	in := lead + string(data) + tail
	keep := strings.Clone(in)
	site := "minify." + fn.name
	CurrentSite = site
	defer func() { CurrentSite = "" }()
	var res string
	var err error
	panicked := ""
	func() {
		defer func() {
			if r := recover(); r != nil {
				panicked = fmt.Sprint(r)
			}
		}()
		res, err = fn.f(in)
	}()
	out.stat("entry_minify."+fn.name, 1)
	out.Key = HashOf(doc.Name, fn.name, in)
	out.Digest = HashOf(res, errText(err))
	out.Sample = map[string]any{"doc": doc.Name, "entry": site, "stream_faults": applied, "lead": lead, "tail": tail, "delivered": corpus.Short([]byte(in), 80)}
	fail := func(kind, detail string) *CaseOut {
		out.V = &sim.Violation{Kind: kind, Site: site, Detail: detail + fmt.Sprintf(" [doc=%s faults=%v input=%q]", doc.Name, applied, corpus.Short([]byte(in), 160))}
		return out
	}
	if panicked != "" {
		return fail("panic", panicked)
	}
	if len(res) > 64*len(in)+8192 {
		return fail("unbounded-output", fmt.Sprintf("%d bytes returned for %d input bytes", len(res), len(in)))
	}
	if err != nil {
		out.stat("probe_helper_returned_error", 1)
		out.stat("probe_helper_package_returned_error", 1)
		if lead != "" || tail != "" {
			out.stat("probe_helper_package_error_behind_bom_or_blank", 1)
		}
		if res != keep {
			return fail("input-not-handed-back", fmt.Sprintf("minify.%s reported %q and returned %d bytes %q, which is not the caller's string %q",
				fn.name, errText(err), len(res), corpus.Short([]byte(res), 100), corpus.Short([]byte(keep), 100)))
		}
		out.stat("runs_ending_in_error", 1)
	}
	return out
}
