package lib

import (
	"bytes"
	"fmt"

	mdefault "github.com/tdewolff/minify/v2/minify"

	"verif/corpus"
	"verif/sim"
)

// The tree ships one ready-made registry: minify.Default of package minify/v2/minify, filled
// at package initialisation with the six standard minifiers and with HTML minifiers for six
// template media types. It is "one registry value with its minifiers registered" like any
// other, shared by every caller of the process by construction, so C13 applies to it word for
// word: concurrent calls return what a sequential call returns, and a call repeated in a new
// process returns the same bytes. The second half is decided by the cross-process pass of
// the driver, which compares Digest (all outputs of the case) between fresh processes.
var c13TemplateMTs = []string{"text/asp", "text/x-ejs-template", "application/x-httpd-php", "text/x-go-template", "text/x-mustache-template", "text/x-handlebars-template"}

var c13TemplateDocs = []string{
	"<p>  <% if ( x )   { %>  a   b  <% } %>  </p>\n<div  title = \"{{  t   u  }}\" >  {{  v   w  }}  </div>\n<?php  echo   1 ;  ?>\n<span> z </span>",
	"<ul>\n  {{#each  items }}\n  <li   class = \"{{  cls  }}\" >  {{  this  }}  </li>\n  {{/each}}\n</ul>",
	"<table>  <%  for ( i = 0 ; i < n ; i ++ )  {  %>  <tr>  <td>  <%=  i  %>  </td>  </tr>  <%  }  %>  </table>",
	"<?php  if ( $a  <  3 ) :  ?>\n  <b>  yes  </b>\n<?php  endif ;  ?>",
}

func c13Default(env *Env, tape *sim.Tape) *CaseOut {
	out := &CaseOut{}
	m := mdefault.Default
	// sequential sweep: every template type over every document, and the standard types over
	// a short document each (reference for the concurrent calls, and part of the digest)
	type key struct {
		mt string
		di int
	}
	refs := map[key]*plainRef{}
	var sweep []any
	seq := func(mt string, di int, data []byte) *plainRef {
		k := key{mt, di}
		if r, ok := refs[k]; ok {
			return r
		}
		op := &Op{Entry: EPlain, MT: mt, In: data, R: sim.NewSimReader(nil, data), W: sim.NewSimWriter(nil)}
		op.Exec(nil, m)
		r := &plainRef{Out: op.Out, Err: op.Err, W: op.W.Calls}
		if op.Panic != "" {
			r.Err = fmt.Errorf("panic: %s", op.Panic)
		}
		refs[k] = r
		return r
	}
	for _, mt := range c13TemplateMTs {
		for di, d := range c13TemplateDocs {
			r := seq(mt, di, []byte(d))
			sweep = append(sweep, mt, r.Out, errText(r.Err))
		}
	}
	ntasks := 2 + tape.Draw(4)
	stick := []int{0, 1, 9}[tape.Draw(3)]
	short := ShortDocs()
	var tasks [][]*Op
	type dop struct {
		*Op
		ref  *plainRef
		name string
	}
	var all []dop
	entries := []int{EPlain, EBytes, EString, EReader, EWriter}
	for ti := 0; ti < ntasks; ti++ {
		var ops []*Op
		for oi, nops := 0, 1+tape.Draw(3); oi < nops; oi++ {
			var mt, name string
			var data []byte
			var ref *plainRef
			if tape.Draw(4) != 0 {
				mt = c13TemplateMTs[tape.Draw(len(c13TemplateMTs))]
				di := tape.Draw(len(c13TemplateDocs))
				data, name = []byte(c13TemplateDocs[di]), fmt.Sprintf("template%d", di)
				ref = seq(mt, di, data)
			} else {
				di := tape.Draw(len(short))
				mt, data, name = short[di].MT, short[di].Data, short[di].Name
				if _, _, f := m.Match(mt); f == nil {
					mt, data, name = "text/html", []byte(c13TemplateDocs[0]), "template0"
					di = -1
				}
				ref = seq(mt, 1000+di, data)
			}
			op := &Op{Entry: entries[tape.Draw(len(entries))], MT: mt, In: data, UseBytes: tape.Draw(3) == 0}
			op.W = sim.NewSimWriter(nil)
			op.R = sim.NewSimReader(nil, data)
			op.R.Chunks = drawChunks(tape, len(data), 6)
			op.WriteChunks = drawChunks(tape, len(data), 6)
			if op.Entry == EReader {
				op.ReadBufs = []int{1 + tape.Draw(64), 1 + tape.Draw(256)}
			}
			ops = append(ops, op)
			all = append(all, dop{op, ref, name})
		}
		tasks = append(tasks, ops)
	}
	budget := 256
	for _, o := range all {
		budget += 8 * (o.ref.W + len(o.R.Chunks) + len(o.WriteChunks) + len(o.In)/32 + len(o.ref.Out)/32 + 16)
	}
	FlagLockWait = true
	sv, st := RunTasks(env.T, tape, m, tasks, stick, budget, false)
	FlagLockWait = false
	var ekey []any
	var calls []string
	for _, o := range all {
		ekey = append(ekey, o.name, o.MT, o.Entry)
		calls = append(calls, fmt.Sprintf("%s(%s %s)", entryName(o.Entry), o.MT, o.name))
		out.stat("calls_"+entryName(o.Entry), 1)
	}
	out.Key = HashOf(append(ekey, "minify.Default", st.TraceHash)...)
	out.Digest = HashOf(sweep...)
	out.TraceHash = st.TraceHash
	out.Nontrivial = st.MaxParked >= 2
	out.stat("probe_shipped_default_registry", 1)
	out.stat("sched_steps", int64(st.Steps))
	out.stat("calls", int64(len(all)))
	out.Sample = map[string]any{"registry": "minify.Default", "tasks": ntasks, "calls": calls, "steps": st.Steps}
	fail := func(kind, site, detail string) *CaseOut {
		out.V = &sim.Violation{Kind: kind, Site: site, Detail: detail + fmt.Sprintf(" [registry=minify.Default tasks=%d calls=%v]", ntasks, calls)}
		return out
	}
	if sv != nil {
		return fail(sv.Kind, sv.Site, sv.Detail)
	}
	for _, o := range all {
		site := "Default." + entryName(o.Entry) + ":" + o.MT
		if o.Panic != "" {
			return fail("panic", site, o.Panic)
		}
		if !o.Finished {
			return fail("deadlock", site, "call never returned")
		}
		gotErr := o.Err
		if o.Entry == EWriter {
			gotErr = o.CloseErr
		}
		if errText(gotErr) != errText(o.ref.Err) {
			return fail("error-differs", site, fmt.Sprintf("concurrent call reported %q, sequential call %q [doc=%s]", errText(gotErr), errText(o.ref.Err), o.name))
		}
		if o.ref.Err == nil && !bytes.Equal(o.Out, o.ref.Out) {
			return fail("output-differs", site, fmt.Sprintf("concurrent call returned %d bytes %q, sequential call %d bytes %q [doc=%s]",
				len(o.Out), corpus.Short(o.Out, 80), len(o.ref.Out), corpus.Short(o.ref.Out, 80), o.name))
		}
		out.Digest = HashOf(out.Digest, o.Out, errText(gotErr))
	}
	if st.Leak != "" {
		return fail("goroutine-left-blocked", "bubble", st.Leak)
	}
	// the same sweep again after the concurrent phase: a repeated call gives the same bytes
	for _, mt := range c13TemplateMTs {
		for di, d := range c13TemplateDocs {
			op := &Op{Entry: EPlain, MT: mt, In: []byte(d), R: sim.NewSimReader(nil, []byte(d)), W: sim.NewSimWriter(nil)}
			op.Exec(nil, m)
			r := refs[key{mt, di}]
			if !bytes.Equal(op.Out, r.Out) || errText(op.Err) != errText(r.Err) {
				return fail("repeat-differs", "Default.Minify:"+mt, fmt.Sprintf("the same sequential call gave %q (%v) before the concurrent calls and %q (%v) after them [doc=template%d]", corpus.Short(r.Out, 80), r.Err, corpus.Short(op.Out, 80), op.Err, di))
			}
		}
	}
	return out
}
