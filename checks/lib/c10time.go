package lib

import (
	"fmt"
	"github.com/tdewolff/minify/v2"
	"sort"
	"strconv"
	"strings"

	"github.com/tdewolff/minify/v2/verifcost"

	"verif/corpus"
	"verif/sim"
)

// C10, "within time proportional to the input size", decided on SIMULATED time: C10's build
// has a work counter compiled into every function entry and every loop body of the seven
// packages of /repo and of the parse module below them (overlaygen.Cost). One tick is one
// call or one loop iteration, so the cost of a call is a pure function of code and input -
// no wall clock, repeatable to the tick.
//
// The probe is a scaling experiment, not a constant: a document is built from a unit
// repeated r times (plain, or with the repetition index spliced in so that every copy
// carries different names), once with r, once with 4r and once with 16r. Work proportional
// to the input grows by ~4 per step; the probe reports a violation only when BOTH steps
// grow by more than 10 (quadratic work grows by 16) and the largest run is big enough for
// constants not to matter. The site of the violation names the media type and the function
// whose counter grew most, which is what the known-findings file matches on.

const (
	scaleStep      = 4
	scaleRatio     = 10
	scaleMinTicks  = 3_000_000 // ticks of the largest run below which nothing is reported
	scaleBaseBytes = 6 << 10   // size of the smallest of the three inputs
)

func buildScaled(prefix, unit, suffix []byte, reps int, numberAt int) []byte {
	out := make([]byte, 0, len(prefix)+len(suffix)+reps*(len(unit)+6))
	out = append(out, prefix...)
	for i := 0; i < reps; i++ {
		if numberAt >= 0 {
			out = append(out, unit[:numberAt]...)
			out = strconv.AppendInt(out, int64(i), 10)
			out = append(out, unit[numberAt:]...)
		} else {
			out = append(out, unit...)
		}
	}
	return append(out, suffix...)
}

var smallDocs []int

var helperSeeds = [][2]string{
	{"helper:Mediatype", `video/mp4; codecs="avc1.42E01E, mp4a.40.2"`},
	{"helper:Mediatype", `text/html ;  charset = "utf-8" ; q=0.8`},
	{"helper:Mediatype", ` Text/CSS ; a="" ; b=""`},
	{"helper:DataURI", `data:text/plain;charset=utf-8;x=1;base64,QUJDREVGRw==`},
	{"helper:DataURI", `data:image/svg+xml;charset=us-ascii,%3Csvg%20xmlns='http://www.w3.org/2000/svg'%3E%3C/svg%3E`},
	{"helper:DataURI", `data:,a%20b c"d'e<f>`},
}

func c10Scaling(env *Env, tape *sim.Tape) *CaseOut {
	out := &CaseOut{Nontrivial: true}
	if !verifcost.On() {
		out.Nontrivial = false
		return out
	}
	di := tape.Draw(len(env.Corpus))
	if tape.Draw(2) == 0 {
		// half of the probes start from a short document (a row of a test table): one
		// construct, which the repetition then multiplies
		if smallDocs == nil {
			for i, d := range env.Corpus {
				if len(d.Data) > 0 && len(d.Data) <= 96 {
					smallDocs = append(smallDocs, i)
				}
			}
		}
		if len(smallDocs) > 0 {
			di = smallDocs[tape.Draw(len(smallDocs))]
		}
	}
	doc := env.Corpus[di]
	if tape.Draw(12) == 0 {
		// the exported string helpers, on the kind of strings they are made for
		hs := helperSeeds[tape.Draw(len(helperSeeds))]
		doc = corpus.Doc{MT: hs[0], Name: "helper-seed/" + hs[1], Src: "builtin", Data: []byte(hs[1])}
	}
	if len(doc.Data) == 0 || doc.MT == MTEarly || strings.HasPrefix(doc.MT, MTCmd) {
		out.Nontrivial = false
		return out
	}
	// the unit: a whole small document, or a piece of a larger one with the rest around it
	var prefix, unit, suffix []byte
	how := "whole document repeated"
	if len(doc.Data) <= 256 && tape.Draw(3) != 0 {
		unit = doc.Data
		if tape.Draw(2) == 0 {
			unit = append(append([]byte(nil), unit...), '\n')
		}
	} else {
		a := markupPos(tape, doc.Data)
		l := 1 + tape.Draw(6) // mostly a token or two: "\\\n", "</b>", "x,"
		switch tape.Draw(6) {
		case 0, 1:
			l = 1 + tape.Draw(24)
		case 2:
			l = 1 + tape.Draw(200)
		}
		if a >= len(doc.Data) {
			a = len(doc.Data) - 1
		}
		if a+l > len(doc.Data) {
			l = len(doc.Data) - a
		}
		unit = doc.Data[a : a+l]
		how = fmt.Sprintf("bytes %d..%d repeated in place", a, a+l)
		if len(doc.Data) <= 4096 {
			prefix, suffix = doc.Data[:a], doc.Data[a+l:]
		} else {
			// keep the surroundings small: the repeated part must dominate
			lo, hi := a-256, a+l+256
			if lo < 0 {
				lo = 0
			}
			if hi > len(doc.Data) {
				hi = len(doc.Data)
			}
			prefix, suffix = doc.Data[lo:a], doc.Data[a+l:hi]
		}
	}
	numberAt := -1
	if tape.Draw(2) == 0 {
		// numbered copies: the index goes after an identifier character, so names differ
		var cands []int
		for i, c := range unit {
			if c >= 'a' && c <= 'z' || c >= 'A' && c <= 'Z' || c == '_' {
				cands = append(cands, i+1)
			}
		}
		if len(cands) > 0 {
			numberAt = cands[tape.Draw(len(cands))]
			how += fmt.Sprintf(", copy index inserted at offset %d", numberAt)
		}
	}
	embed := tape.Draw(5) == 0
	entry := []int{EPlain, EBytes, EString}[tape.Draw(3)]
	return scalingProbe(out, doc, prefix, unit, suffix, numberAt, embed, entry, how)
}

// c10ScalingAt is the enumerable front end of the probe (thorough tier): the tape names the
// document, the unit [a, a+l) and the variant directly.
// tape: [document, a, l-1, numbered(0/1), embed(0/1)]
func c10ScalingAt(env *Env, tape *sim.Tape) *CaseOut {
	out := &CaseOut{Nontrivial: true}
	if !verifcost.On() {
		out.Nontrivial = false
		return out
	}
	doc := env.Corpus[tape.Draw(len(env.Corpus))]
	if len(doc.Data) == 0 || doc.MT == MTEarly || strings.HasPrefix(doc.MT, MTCmd) {
		out.Nontrivial = false
		return out
	}
	a := tape.Draw(len(doc.Data))
	l := 1 + tape.Draw(8)
	if a+l > len(doc.Data) {
		l = len(doc.Data) - a
	}
	unit := doc.Data[a : a+l]
	numberAt := -1
	how := fmt.Sprintf("bytes %d..%d repeated in place", a, a+l)
	if tape.Draw(2) == 1 {
		for i, c := range unit {
			if c >= 'a' && c <= 'z' || c >= 'A' && c <= 'Z' || c == '_' {
				numberAt = i + 1
			}
		}
		if numberAt < 0 {
			out.Nontrivial = false
			return out // same as the plain variant
		}
		how += fmt.Sprintf(", copy index inserted at offset %d", numberAt)
	}
	embed := tape.Draw(2) == 1
	out.stat("scaling_probes_enumerated", 1)
	return scalingProbe(out, doc, doc.Data[:a], unit, doc.Data[a+l:], numberAt, embed, EPlain, how)
}

func scalingProbe(out *CaseOut, doc corpus.Doc, prefix, unit, suffix []byte, numberAt int, embed bool, entry int, how string) *CaseOut {
	r0 := scaleBaseBytes/(len(unit)+1) + 1
	site0 := "scaling:" + doc.MT
	CurrentSite = site0
	defer func() { CurrentSite = "" }()

	var ticks [3]int64
	var sizes [3]int
	var snaps [3][]int64
	reps := r0
	m := NewRegistry(DefaultOptions())
	for step := 0; step < 3; step++ {
		data := buildScaled(prefix, unit, suffix, reps, numberAt)
		mt := doc.MT
		if embed {
			if emt, edata, ok := embedDoc(corpus.Doc{MT: doc.MT, Data: data}); ok {
				mt, data = emt, edata
			}
		}
		sizes[step] = len(data)
		op := &Op{Entry: entry, MT: mt, In: data}
		op.W = sim.NewSimWriter(nil)
		op.R = sim.NewSimReader(nil, data)
		before := verifcost.Snapshot(nil)
		if strings.HasPrefix(doc.MT, "helper:") {
			// an exported helper called directly on a private copy
			func() {
				defer func() {
					if r := recover(); r != nil {
						op.Panic = fmt.Sprint(r)
					}
				}()
				b := append(make([]byte, 0, len(data)+8), data...)
				switch doc.MT {
				case "helper:Mediatype":
					minify.Mediatype(b)
				case "helper:DataURI":
					minify.DataURI(m, b)
				}
			}()
		} else {
			op.Exec(nil, m)
		}
		after := verifcost.Snapshot(nil)
		for i := range after {
			after[i] -= before[i]
			ticks[step] += after[i]
		}
		snaps[step] = after
		if op.Panic != "" {
			out.V = &sim.Violation{Kind: "panic", Site: site0, Detail: op.Panic + fmt.Sprintf(" [doc=%s %s, %d copies, input %q]", doc.Name, how, reps, corpus.Short(data, 160))}
			return out
		}
		// an early verdict saves the expensive third run for inputs that are plainly linear
		if step == 1 && (ticks[1] < scaleRatio*ticks[0] || ticks[0] == 0) {
			break
		}
		reps *= scaleStep
	}
	out.stat("entry_scaling_probe", 1)
	out.stat("simulated_ticks", ticks[0]+ticks[1]+ticks[2])
	out.Key = HashOf(doc.Name, how, embed, entry)
	out.Sample = map[string]any{"doc": doc.Name, "media_type": doc.MT, "entry": "scaling probe", "unit": corpus.Short(unit, 60), "how": how,
		"input_bytes": sizes, "simulated_ticks": ticks}
	if ticks[2] == 0 {
		return out
	}
	out.stat("probe_third_scaling_step_run", 1)
	if ticks[1] < scaleRatio*ticks[0] || ticks[2] < scaleRatio*ticks[1] || ticks[2] < scaleMinTicks {
		return out
	}
	// which function's counter explains the growth
	type hot struct {
		name  string
		extra int64
	}
	var hs []hot
	for i, n := range verifcost.Names {
		if e := snaps[2][i] - scaleStep*snaps[1][i]; e > 0 {
			hs = append(hs, hot{n, e})
		}
	}
	sort.Slice(hs, func(i, j int) bool { return hs[i].extra > hs[j].extra })
	// Canonical attribution: several counters usually grow together (a loop and the helpers
	// it calls). Among those within a factor four of the largest, prefer code of /repo over
	// the parse module, then the more specific package, then the name: the same mechanism
	// then gets the same site whatever the input was.
	rank := func(n string) (int, int) {
		pkg := n[:strings.IndexByte(n, '.')]
		r := 1
		if strings.HasPrefix(pkg, "minify") {
			r = 0
		}
		return r, -strings.Count(pkg, "/")
	}
	top := "?"
	var tops []string
	for i, h := range hs {
		if i < 4 {
			tops = append(tops, fmt.Sprintf("%s +%d", h.name, h.extra))
		}
		if 4*h.extra < hs[0].extra {
			continue
		}
		if top == "?" {
			top = h.name
			continue
		}
		a1, a2 := rank(h.name)
		b1, b2 := rank(top)
		if a1 < b1 || a1 == b1 && (a2 < b2 || a2 == b2 && h.name < top) {
			top = h.name
		}
	}
	out.stat("superlinear_site_"+doc.MT+":"+top, 1)
	out.V = &sim.Violation{Kind: "superlinear-work", Site: doc.MT + ":" + top,
		Detail: fmt.Sprintf("work grows faster than the input: %d / %d / %d bytes cost %d / %d / %d ticks (x%.1f, x%.1f for x%d input each; one tick = one function call or loop iteration of the instrumented packages). Counters that grew beyond proportional: %s [doc=%s, %s, unit %q, entry %s, embedded=%v]",
			sizes[0], sizes[1], sizes[2], ticks[0], ticks[1], ticks[2], float64(ticks[1])/float64(ticks[0]), float64(ticks[2])/float64(ticks[1]), scaleStep,
			strings.Join(tops, "; "), doc.Name, how, corpus.Short(unit, 80), entryName(entry), embed)}
	return out
}
