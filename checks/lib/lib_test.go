package lib

import "testing"

// TestSim is the only test: the binary is a worker driven by /verif/verif through
// environment variables (see harness.go).
func TestSim(t *testing.T) { RunFromEnv(t) }
