package lib

import (
	"os"
	"testing"
)

// TestMain: with VERIF_HELPER set the binary acts as an external minifier command (used
// for AddCmd registrations); otherwise it runs the one test below.
func TestMain(m *testing.M) {
	HelperMain()
	os.Exit(m.Run())
}

// TestSim is the only test: the binary is a worker driven by /verif/verif through
// environment variables (see harness.go).
func TestSim(t *testing.T) { RunFromEnv(t) }
