package lib

import (
	"bytes"
	"fmt"
	"strings"

	"verif/corpus"
	"verif/sim"
)

// Seeded JavaScript programs from a small expression / statement grammar (added in wave 10:
// three seeded changes in a row needed a JavaScript construct that no document of the tree's
// tests, corpora and benchmarks contains and that no stream fault produces - a spread of a
// literal in a condition, a redeclared var list, a negated group of parenthesised
// comparisons). The tape draws the derivation, so a failing program shrinks to a small one.
// Only the clauses of C10 are judged: the call returns, does not panic, writes a bounded
// amount, and hands the caller's data back when it reports an error. What the output means is
// C01's business. Programs the parser rejects are fine: an error is an answer.
type jsGen struct {
	tape *sim.Tape
	b    strings.Builder
	n    int // productions so far
}

var jsNames = []string{"a", "b", "c", "d", "x", "y", "f", "g", "obj", "arr"}
var jsLeaves = []string{"0", "1", "42", "1.50", "0x1F", "1e3", ".5", "10n", "'s'", "\"t\"", "'it\\'s'", "true", "false", "null", "undefined", "this", "/a+/g", "`t${a}u`", "NaN", "Infinity", "[]", "{}", "''"}
// numeric literals at the edges of what the number rewriting handles: long and short hex,
// binary, octal, separators, exponents on both sides of the switch to exponent notation,
// integers beyond 2^53, leading and trailing zeros
var jsNumbers = []string{"0xF", "0xFFFFFFFFFF", "0xfffffffffffff", "0XABCDEF0123", "0x0", "0b1010", "0B11111111111111111111111111111111", "0o777", "0777", "1_000_000", "1e21", "1e-7", "1E+3", ".5e-10", "5.e3",
	"9007199254740993", "123456789012345678901234567890", "0.000001", "0.0000001", "100000", "1000000", "1.0", "1.10", "00", "0.", "1e0", "1e999", "999999999999999999999n", "0x1p3", "08", "0.1e1", "12.340e-2"}

var jsBin = []string{"==", "!=", "===", "!==", "&&", "||", "&&", "||", "==", "===", "&&", "||", "!==", "!=", "&&", "||", "==", "||", "&&", "===", "==", "!=", "===", "!==", "<", ">", "<=", ">=", "&&", "||", "??", "+", "-", "*", "/", "%", "**", "&", "|", "^", "<<", ">>", ">>>", " in ", " instanceof ", ","}
var jsUn = []string{"!", "!", "!", "!", "!", "!", "!", "!", "!", "-", "+", "typeof ", "void ", "~", "delete ", "await ", "++", "--", "!!", "- -"}
var jsAssign = []string{"=", "+=", "-=", "*=", "||=", "&&=", "??=", ">>>=", "**="}

func (g *jsGen) w(s string)   { g.b.WriteString(s) }
func (g *jsGen) name() string { return jsNames[g.tape.Draw(len(jsNames))] }

// cond derives a condition: comparisons joined by && and ||, negated and parenthesised at
// every level - the part of the expression grammar where minifiers rewrite most (De Morgan,
// comparison flipping, removal of double negations and of groups).
func (g *jsGen) cond(d int) {
	g.n++
	k := g.tape.Draw(7)
	if d <= 0 || g.n > 60 {
		k = 0
	}
	switch k {
	case 0, 1:
		if g.tape.Draw(4) == 0 {
			g.w(g.name())
			return
		}
		g.w(g.name() + []string{"==", "!=", "===", "!==", "<", ">=", " in ", "&", "??"}[g.tape.Draw(9)] + []string{g.name(), "0", "null", "'s'", "undefined", "-1"}[g.tape.Draw(6)])
	case 2:
		g.w("!")
		g.cond(d - 1)
	case 3:
		g.w("(")
		g.cond(d - 1)
		g.w(")")
	case 4:
		g.cond(d - 1)
		g.w("&&")
		g.cond(d - 1)
	case 5:
		g.cond(d - 1)
		g.w("||")
		g.cond(d - 1)
	default:
		g.cond(d - 1)
		g.w("?")
		g.cond(d - 1)
		g.w(":")
		g.cond(d - 1)
	}
}

func (g *jsGen) expr(d int) {
	g.n++
	k := g.tape.Draw(18)
	if k >= 16 {
		g.cond(d + 1)
		return
	}
	if d <= 0 || g.n > 60 {
		k = g.tape.Draw(2)
	}
	switch k {
	case 0:
		g.w(g.name())
	case 1:
		if g.tape.Draw(3) == 0 {
			g.w(jsNumbers[g.tape.Draw(len(jsNumbers))])
			break
		}
		g.w(jsLeaves[g.tape.Draw(len(jsLeaves))])
	case 2:
		g.w(jsUn[g.tape.Draw(len(jsUn))])
		g.expr(d - 1)
	case 3, 4, 5:
		g.expr(d - 1)
		g.w(jsBin[g.tape.Draw(len(jsBin))])
		g.expr(d - 1)
	case 6, 7:
		g.w("(")
		g.expr(d - 1)
		g.w(")")
	case 8:
		g.expr(d - 1)
		g.w("?")
		g.expr(d - 1)
		g.w(":")
		g.expr(d - 1)
	case 9:
		g.w(g.name())
		switch g.tape.Draw(6) {
		case 0:
			g.w("(")
			g.expr(d - 1)
			g.w(",")
			g.expr(d - 1)
			g.w(")")
		case 1:
			g.w("." + g.name())
		case 2:
			g.w("[")
			g.expr(d - 1)
			g.w("]")
		case 3:
			g.w("?." + g.name())
		case 4:
			g.w("?.(")
			g.expr(d - 1)
			g.w(")")
		default:
			g.w("(...")
			g.expr(d - 1)
			g.w(")")
		}
	case 10:
		g.w(g.name() + jsAssign[g.tape.Draw(len(jsAssign))])
		if g.tape.Draw(3) == 0 {
			g.cond(d)
		} else {
			g.expr(d - 1)
		}
	case 11:
		if g.tape.Draw(2) == 0 {
			g.w(g.name() + "=>")
			g.expr(d - 1)
		} else {
			g.w("(" + g.name() + "," + g.name() + "=1,..." + g.name() + ")=>{")
			g.stmt(d - 1)
			g.w("}")
		}
	case 12:
		g.w("{")
		for i, n := 0, g.tape.Draw(4); i < n; i++ {
			switch g.tape.Draw(6) {
			case 0:
				g.w(g.name() + ":")
				g.expr(d - 1)
			case 1:
				g.w("[")
				g.expr(d - 1)
				g.w("]:")
				g.expr(d - 1)
			case 2:
				g.w("...")
				if g.tape.Draw(2) == 0 {
					g.w(jsLeaves[g.tape.Draw(len(jsLeaves))]) // a spread of a literal
				} else {
					g.expr(d - 1)
				}
			case 3:
				g.w(g.name())
			case 4:
				g.w("get " + g.name() + "(){return ")
				g.expr(d - 1)
				g.w("}")
			default:
				g.w("'k-" + g.name() + "':")
				g.expr(d - 1)
			}
			g.w(",")
		}
		g.w("}")
	case 13:
		g.w("[")
		for i, n := 0, g.tape.Draw(4); i < n; i++ {
			switch g.tape.Draw(4) {
			case 0:
				g.w("...")
				g.expr(d - 1)
			case 1:
			default:
				g.expr(d - 1)
			}
			g.w(",")
		}
		g.w("]")
	case 14:
		g.w([]string{"function(" + g.name() + "){", "function*" + " " + g.name() + "(){yield ", "async function(){await ", "new " + g.name() + "(", "class{static " + g.name() + "=", "new.target||("}[g.tape.Draw(6)])
		g.expr(d - 1)
		g.w([]string{"}", ")", ";}", "})"}[g.tape.Draw(4)]) // mismatches are part of the game
	default:
		g.expr(d - 1)
		g.w([]string{"++", "--", "`tpl`", ".x", "", "!", "?.[0]"}[g.tape.Draw(7)])
	}
}

func (g *jsGen) stmt(d int) {
	g.n++
	k := g.tape.Draw(20)
	if d <= 0 || g.n > 60 {
		k = 0
	}
	switch k {
	case 0, 1, 2:
		g.expr(d)
		g.w(";")
	case 3, 4:
		g.w([]string{"var ", "let ", "const ", "var "}[g.tape.Draw(4)])
		few := g.tape.Draw(2) == 0 // the same two or three names again and again: redeclarations
		for i, n := 0, 1+g.tape.Draw(3); i < n; i++ {
			if i > 0 {
				g.w(",")
			}
			k := g.tape.Draw(5)
			if few {
				nm := jsNames[g.tape.Draw(3)]
				if k == 0 {
					g.w(nm)
				} else {
					g.w(nm + "=")
					g.expr(d - 1)
				}
				continue
			}
			switch k {
			case 0:
				g.w(g.name())
			case 1:
				g.w("{" + g.name() + "," + g.name() + ":" + g.name() + "=2,..." + g.name() + "}=")
				g.expr(d - 1)
			case 2:
				g.w("[" + g.name() + ",," + g.name() + "=1]=")
				g.expr(d - 1)
			default:
				g.w(g.name() + "=")
				g.expr(d - 1)
			}
		}
		g.w(";")
	case 5, 6:
		g.w("if(")
		if g.tape.Draw(2) == 0 {
			g.cond(d)
		} else {
			g.expr(d - 1)
		}
		g.w(")")
		g.stmt(d - 1)
		if g.tape.Draw(2) == 0 {
			g.w(" else ")
			g.stmt(d - 1)
		}
	case 7:
		g.w("while(")
		if g.tape.Draw(2) == 0 {
			g.cond(d)
		} else {
			g.expr(d - 1)
		}
		g.w(")")
		g.stmt(d - 1)
	case 8:
		g.w([]string{"for(var " + g.name() + "=0;", "for(;", "for(let " + g.name() + " of ", "for(const " + g.name() + " in ", "for(" + g.name() + " of ", "for await(var " + g.name() + " of "}[g.tape.Draw(6)])
		g.expr(d - 1)
		if g.tape.Draw(2) == 0 {
			g.w(";")
			g.expr(d - 1)
		}
		g.w(")")
		g.stmt(d - 1)
	case 9:
		g.w("{")
		for i, n := 0, g.tape.Draw(4); i < n; i++ {
			g.stmt(d - 1)
		}
		g.w("}")
	case 10:
		g.w("function " + g.name() + "(" + g.name() + "," + g.name() + "){")
		for i, n := 0, g.tape.Draw(3); i < n; i++ {
			g.stmt(d - 1)
		}
		g.w("return ")
		g.expr(d - 1)
		g.w("}")
	case 11:
		g.w("try{")
		g.stmt(d - 1)
		g.w([]string{"}catch(" + g.name() + "){", "}catch{", "}finally{", "}catch({message}){"}[g.tape.Draw(4)])
		g.stmt(d - 1)
		g.w("}")
	case 12:
		g.w("switch(")
		g.expr(d - 1)
		g.w("){case ")
		g.expr(d - 1)
		g.w(":")
		g.stmt(d - 1)
		g.w([]string{"break;default:", "case 2:", "default:break;case 3:"}[g.tape.Draw(3)])
		g.stmt(d - 1)
		g.w("}")
	case 13:
		g.w([]string{"throw ", "return ", "lbl:", "break lbl;", "continue;", "debugger;", ";", "do ", "export default ", "import " + g.name() + " from 'm';"}[g.tape.Draw(10)])
		g.stmt(d - 1)
	case 14:
		g.w("class " + g.name() + [2]string{"", " extends " + g.name()}[g.tape.Draw(2)] + "{")
		for i, n := 0, g.tape.Draw(3); i < n; i++ {
			g.w([]string{"", "static ", "async ", "get ", "#"}[g.tape.Draw(5)] + g.name() + "(){")
			g.stmt(d - 1)
			g.w("}")
		}
		g.w("}")
	case 16:
		// a run of var statements over two or three names (and a use in between): hoisting
		// and merging of declarations
		for i, n := 0, 2+g.tape.Draw(3); i < n; i++ {
			g.w("var ")
			for j, m := 0, 1+g.tape.Draw(3); j < m; j++ {
				if j > 0 {
					g.w(",")
				}
				g.w(jsNames[g.tape.Draw(3)])
				if g.tape.Draw(2) == 0 {
					g.w("=" + []string{"0", "1", "5", "a", "f()"}[g.tape.Draw(5)])
				}
			}
			g.w([]string{";", ";", ";for(;;);", ";f(a);"}[g.tape.Draw(4)])
		}
	case 15:
		g.w("do ")
		g.stmt(d - 1)
		g.w("while(")
		g.expr(d - 1)
		g.w(");")
	default:
		g.expr(d)
		g.w([]string{";", "\n", ";\n", ""}[g.tape.Draw(4)])
	}
}

func c10JSGrammar(env *Env, tape *sim.Tape) *CaseOut {
	out := &CaseOut{Nontrivial: true}
	g := &jsGen{tape: tape}
	for i, n := 0, 1+tape.Draw(4); i < n; i++ {
		g.stmt(2 + tape.Draw(3))
		g.n = 0
	}
	src := g.b.String()
	mt := "application/javascript"
	data := []byte(src)
	wrap := tape.Draw(6)
	switch wrap {
	case 4:
		mt, data = "text/html", []byte("<p>x</p><script>"+src+"</script><p>y</p>")
	case 5:
		mt, data = "text/html", []byte("<a onclick=\""+strings.NewReplacer("\"", "&quot;", "&", "&amp;").Replace(src)+"\">x</a>")
	}
	opts := DefaultOptions()
	if tape.Draw(3) == 0 {
		opts = drawOptions(tape)
	}
	entry := []int{EString, EBytes, EPlain}[tape.Draw(3)]
	site := "js-grammar:" + entryName(entry) + ":" + mt
	CurrentSite = site
	defer func() { CurrentSite = "" }()
	orig := append([]byte(nil), data...)
	op := &Op{Entry: entry, MT: mt, In: data, UseBytes: true}
	op.W = sim.NewSimWriter(nil)
	op.R = sim.NewSimReader(nil, data)
	m := NewRegistry(opts)
	op.Exec(nil, m)
	out.stat("entry_js_grammar", 1)
	out.Key = HashOf("jsg", src, wrap, entry, opts.String())
	out.Digest = HashOf(op.Out, op.W.Buf, errText(op.Err))
	out.Sample = map[string]any{"entry": site, "program": corpus.Short(data, 200)}
	fail := func(kind, detail string) *CaseOut {
		out.V = &sim.Violation{Kind: kind, Site: site, Detail: detail + fmt.Sprintf(" [generated program=%q options=%s]", corpus.Short(data, 400), opts.String())}
		return out
	}
	if op.Panic != "" {
		return fail("panic", op.Panic)
	}
	if !op.Finished {
		return fail("deadlock", "the entry point never returned")
	}
	if lim := 64*len(data) + 8192; op.W.Calls > lim || len(op.W.Buf) > lim || len(op.Out) > lim {
		return fail("unbounded-output", fmt.Sprintf("%d Write calls / %d bytes for %d input bytes", op.W.Calls, len(op.W.Buf)+len(op.Out), len(data)))
	}
	if op.Err != nil {
		out.stat("js_grammar_programs_rejected", 1)
		if (entry == EBytes || entry == EString) && !bytes.Equal(op.Out, orig) {
			return fail("input-not-handed-back", fmt.Sprintf("%s reported %q and returned %q, which is not the caller's data", entryName(entry), errText(op.Err), corpus.Short(op.Out, 100)))
		}
	} else {
		out.stat("js_grammar_programs_accepted", 1)
	}
	return out
}
