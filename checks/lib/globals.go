package lib

import (
	"fmt"

	"github.com/tdewolff/minify/v2"
	"github.com/tdewolff/minify/v2/css"
	"github.com/tdewolff/minify/v2/html"
	"github.com/tdewolff/minify/v2/js"
	"github.com/tdewolff/minify/v2/json"
	"github.com/tdewolff/minify/v2/svg"
	"github.com/tdewolff/minify/v2/xml"

	"verif/sim"
)

// Package-level state of the module under test (pointers come from files generated into
// each package by the build overlay).
type globalsState struct {
	names []string
	ptrs  []any
}

func loadGlobals() *globalsState {
	g := &globalsState{}
	add := func(pkg string, n []string, p []any) {
		for i := range n {
			g.names = append(g.names, pkg+"."+n[i])
			g.ptrs = append(g.ptrs, p[i])
		}
	}
	n, p := minify.VerifGlobals()
	add("minify", n, p)
	n, p = css.VerifGlobals()
	add("css", n, p)
	n, p = html.VerifGlobals()
	add("html", n, p)
	n, p = js.VerifGlobals()
	add("js", n, p)
	n, p = json.VerifGlobals()
	add("json", n, p)
	n, p = svg.VerifGlobals()
	add("svg", n, p)
	n, p = xml.VerifGlobals()
	add("xml", n, p)
	return g
}

func (g *globalsState) digest() []uint64 { return sim.DeepDigest(g.ptrs) }

// diff names the first variable whose digest changed.
func (g *globalsState) diff(a, b []uint64) string {
	for i := range a {
		if a[i] != b[i] {
			return g.names[i]
		}
	}
	return ""
}

func (g *globalsState) String() string {
	return fmt.Sprintf("%d package-level variables", len(g.names))
}
