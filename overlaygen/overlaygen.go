// Package overlaygen builds the `go build -overlay` files that inject the simulator's
// seams into the module under test without committing anything to it: the files are read
// from /repo's current working tree, rewritten into a scratch directory, and mapped over
// the originals for this build only.
package overlaygen

import (
	"bytes"
	"encoding/json"
	"fmt"
	"go/ast"
	"go/format"
	"go/parser"
	"go/token"
	"os"
	"path/filepath"
	"sort"
	"strconv"
	"strings"
)

type Overlay struct {
	Replace map[string]string
}

func (o *Overlay) Write(path string) error {
	b, err := json.MarshalIndent(o, "", " ")
	if err != nil {
		return err
	}
	return os.WriteFile(path, b, 0o644)
}

// rewriteImport parses file, replaces the import of path `from` by `to` keeping the local
// name `name`, and returns the new source; changed=false when the file does not import it.
// It refuses (error) when the package is imported under another name or dot-imported,
// because selector expressions would then not be covered by the facade.
func rewriteImport(file, from, to, name string) (src []byte, changed bool, err error) {
	fset := token.NewFileSet()
	f, err := parser.ParseFile(fset, file, nil, parser.ParseComments)
	if err != nil {
		return nil, false, err
	}
	for _, im := range f.Imports {
		p, _ := strconv.Unquote(im.Path.Value)
		if p != from {
			continue
		}
		if name == "" {
			// keep whatever local name the file uses
			if im.Name != nil && (im.Name.Name == "." || im.Name.Name == "_") {
				return nil, false, fmt.Errorf("%s imports %q as %q: facade cannot cover it", file, from, im.Name.Name)
			}
			if im.Name == nil {
				im.Name = ast.NewIdent(filepath.Base(from))
			}
			im.Path.Value = strconv.Quote(to)
			changed = true
			continue
		}
		if im.Name != nil && im.Name.Name != name {
			return nil, false, fmt.Errorf("%s imports %q as %q: facade cannot cover it", file, from, im.Name.Name)
		}
		im.Path.Value = strconv.Quote(to)
		im.Name = ast.NewIdent(name)
		changed = true
	}
	if !changed {
		return nil, false, nil
	}
	var buf bytes.Buffer
	if err := format.Node(&buf, fset, f); err != nil {
		return nil, false, err
	}
	// fail closed: the result must parse
	if _, err := parser.ParseFile(token.NewFileSet(), file, buf.Bytes(), 0); err != nil {
		return nil, false, fmt.Errorf("rewritten %s does not parse: %v", file, err)
	}
	return buf.Bytes(), true, nil
}

func goFiles(dir string) ([]string, error) {
	ents, err := os.ReadDir(dir)
	if err != nil {
		return nil, err
	}
	var out []string
	for _, e := range ents {
		n := e.Name()
		if e.IsDir() || !strings.HasSuffix(n, ".go") || strings.HasSuffix(n, "_test.go") {
			continue
		}
		out = append(out, filepath.Join(dir, n))
	}
	sort.Strings(out)
	return out, nil
}

// mapDir maps every .go file of srcDir to virtDir in the overlay.
func mapDir(o *Overlay, srcDir, virtDir string) error {
	files, err := filepath.Glob(filepath.Join(srcDir, "*.go"))
	if err != nil {
		return err
	}
	if len(files) == 0 {
		return fmt.Errorf("no go files in %s", srcDir)
	}
	for _, f := range files {
		o.Replace[filepath.Join(virtDir, filepath.Base(f))] = f
	}
	return nil
}

// Lib generates the overlay for libsim: every non-test file of the root package that
// imports "sync" gets it rerouted to the verifsync facade, which is mapped to
// <repo>/verifsync.
func Lib(repo, verif, scratch string) (*Overlay, error) {
	o := &Overlay{Replace: map[string]string{}}
	files, err := goFiles(repo)
	if err != nil {
		return nil, err
	}
	n := 0
	for _, f := range files {
		src, changed, err := rewriteImport(f, "sync", "github.com/tdewolff/minify/v2/verifsync", "sync")
		if err != nil {
			return nil, err
		}
		if !changed {
			continue
		}
		dst := filepath.Join(scratch, "root_"+filepath.Base(f))
		if err := os.WriteFile(dst, src, 0o644); err != nil {
			return nil, err
		}
		o.Replace[f] = dst
		n++
	}
	if err := mapDir(o, filepath.Join(verif, "overlaysrc", "verifsync"), filepath.Join(repo, "verifsync")); err != nil {
		return nil, err
	}
	// the work counters exist in every build; only C10's build instruments the code (Cost)
	if err := mapDir(o, filepath.Join(verif, "overlaysrc", "verifcost"), filepath.Join(repo, "verifcost")); err != nil {
		return nil, err
	}
	// package-level state of the root package and the six minifier packages: a generated
	// file per package hands out pointers to every package-level variable (found in the AST
	// of the current tree, so a newly introduced global is covered automatically)
	for _, pkg := range GlobalsPackages {
		dir := filepath.Join(repo, pkg)
		src, err := globalsFile(dir)
		if err != nil {
			return nil, err
		}
		name := "globals_" + strings.ReplaceAll(pkg, ".", "root") + ".go"
		dst := filepath.Join(scratch, name)
		if err := os.WriteFile(dst, src, 0o644); err != nil {
			return nil, err
		}
		o.Replace[filepath.Join(dir, "verif_globals_gen.go")] = dst
	}
	return o, nil
}

// GlobalsPackages are the packages whose package-level state is digested by C13.
var GlobalsPackages = []string{".", "css", "html", "js", "json", "svg", "xml"}

// globalsFile generates verif_globals_gen.go for the package in dir.
func globalsFile(dir string) ([]byte, error) {
	files, err := goFiles(dir)
	if err != nil {
		return nil, err
	}
	pkgName := ""
	var names []string
	for _, f := range files {
		fset := token.NewFileSet()
		af, err := parser.ParseFile(fset, f, nil, parser.ParseComments)
		if err != nil {
			return nil, err
		}
		constrained := false
		for _, cg := range af.Comments {
			if cg.Pos() > af.Package {
				break
			}
			for _, c := range cg.List {
				if strings.HasPrefix(c.Text, "//go:build") || strings.HasPrefix(c.Text, "// +build") {
					constrained = true
				}
			}
		}
		if constrained {
			continue
		}
		if pkgName == "" {
			pkgName = af.Name.Name
		}
		for _, d := range af.Decls {
			gd, ok := d.(*ast.GenDecl)
			if !ok || gd.Tok != token.VAR {
				continue
			}
			for _, sp := range gd.Specs {
				vs := sp.(*ast.ValueSpec)
				for _, n := range vs.Names {
					if n.Name != "_" {
						names = append(names, n.Name)
					}
				}
			}
		}
	}
	if pkgName == "" {
		return nil, fmt.Errorf("no package in %s", dir)
	}
	sort.Strings(names)
	var b bytes.Buffer
	fmt.Fprintf(&b, "// Code generated by /verif/overlaygen; DO NOT EDIT.\n\n//go:build verif\n\npackage %s\n\n", pkgName)
	fmt.Fprintf(&b, "// VerifGlobals hands out the names of and pointers to every package-level variable.\nfunc VerifGlobals() ([]string, []any) {\n\treturn []string{")
	for _, n := range names {
		fmt.Fprintf(&b, "%q, ", n)
	}
	fmt.Fprintf(&b, "}, []any{")
	for _, n := range names {
		fmt.Fprintf(&b, "&%s, ", n)
	}
	fmt.Fprintf(&b, "}\n}\n")
	return format.Source(b.Bytes())
}

// ---- clisim ----

var osIntercepted = map[string]bool{
	"Open": true, "OpenFile": true, "Create": true, "ReadFile": true, "WriteFile": true,
	"Remove": true, "RemoveAll": true, "Rename": true, "Mkdir": true, "MkdirAll": true,
	"Symlink": true, "Link": true, "Readlink": true, "Stat": true, "Lstat": true,
	"Chmod": true, "Chown": true, "Lchown": true, "Chtimes": true, "Truncate": true, "ReadDir": true,
	"File": true, "Stdin": true, "Stdout": true, "Stderr": true, "NewFile": true, "Exit": true,
}

// FS-touching (or process-level) names that the facade forwards without interception: a
// tree that uses them outside --watch reaches the disk behind the simulator's back.
var osUnsupported = map[string]bool{
	"DirFS": true, "CopyFS": true, "OpenRoot": true, "OpenInRoot": true,
	"Chdir": true, "StartProcess": true, "Pipe": true, "Root": true,
}

// path/filepath has a facade of its own since wave 10 (overlaysrc/veriffilepath): nothing of
// it goes around the simulator any more
var filepathFS = map[string]bool{}

// scanBypass reports uses in file that reach the file system around the os facade.
func scanBypass(file string) ([]string, error) {
	fset := token.NewFileSet()
	f, err := parser.ParseFile(fset, file, nil, 0)
	if err != nil {
		return nil, err
	}
	var bad []string
	names := map[string]string{} // local name -> import path
	for _, im := range f.Imports {
		p, _ := strconv.Unquote(im.Path.Value)
		n := filepath.Base(p)
		if im.Name != nil {
			n = im.Name.Name
		}
		names[n] = p
		switch p {
		case "io/ioutil", "os/exec", "syscall/js":
			bad = append(bad, fmt.Sprintf("%s imports %q", filepath.Base(file), p))
		}
	}
	ast.Inspect(f, func(n ast.Node) bool {
		se, ok := n.(*ast.SelectorExpr)
		if !ok {
			return true
		}
		id, ok := se.X.(*ast.Ident)
		if !ok || id.Obj != nil {
			return true
		}
		switch names[id.Name] {
		case "os":
			if osUnsupported[se.Sel.Name] {
				bad = append(bad, fmt.Sprintf("%s uses os.%s", filepath.Base(file), se.Sel.Name))
			}
		case "path/filepath":
			if filepathFS[se.Sel.Name] {
				bad = append(bad, fmt.Sprintf("%s uses filepath.%s", filepath.Base(file), se.Sel.Name))
			}
		}
		return true
	})
	return bad, nil
}

// CLI generates the overlay for clisim: every non-test file of cmd/minify gets its "os"
// import rerouted to the verifos facade (mapped to <repo>/verifos), the driver test is
// injected into package main, and the package's own test files are blanked (they are not
// part of the simulated binary and may not type-check against the facade). It fails closed
// when the package reaches the file system around the facade (outside watch.go, which no
// property covers).
func CLI(repo, verif, scratch string) (*Overlay, error) {
	o := &Overlay{Replace: map[string]string{}}
	dir := filepath.Join(repo, "cmd", "minify")
	files, err := goFiles(dir)
	if err != nil {
		return nil, err
	}
	rewritten := 0
	for _, f := range files {
		if filepath.Base(f) != "watch.go" {
			bad, err := scanBypass(f)
			if err != nil {
				return nil, err
			}
			if len(bad) > 0 {
				return nil, fmt.Errorf("cmd/minify reaches the file system around the os facade: %s", strings.Join(bad, "; "))
			}
		}
		src, changed, err := rewriteImport(f, "os", "github.com/tdewolff/minify/v2/verifos", "os")
		if err != nil {
			return nil, err
		}
		cur := f
		if changed {
			dst := filepath.Join(scratch, "cli_"+filepath.Base(f))
			if err := os.WriteFile(dst, src, 0o644); err != nil {
				return nil, err
			}
			o.Replace[f] = dst
			cur = dst
			rewritten++
		}
		// second seam: the buffer sizes of io.ReadAll / io.Copy
		src2, changed2, err := rewriteImport(cur, "io", "github.com/tdewolff/minify/v2/verifio", "io")
		if err != nil {
			return nil, err
		}
		if changed2 {
			dst := filepath.Join(scratch, "cli2_"+filepath.Base(f))
			if err := os.WriteFile(dst, src2, 0o644); err != nil {
				return nil, err
			}
			o.Replace[f] = dst
			cur = dst
		}
		// third seam: catchable signals
		src3, changed3, err := rewriteImport(cur, "os/signal", "github.com/tdewolff/minify/v2/verifsignal", "signal")
		if err != nil {
			return nil, err
		}
		if changed3 {
			dst := filepath.Join(scratch, "cli3_"+filepath.Base(f))
			if err := os.WriteFile(dst, src3, 0o644); err != nil {
				return nil, err
			}
			o.Replace[f] = dst
			cur = dst
		}
		// fourth seam: locks (the pinned command has none; a tree that adds one must not stall
		// the simulation: a goroutine waiting for a sync.Mutex is not "durably blocked" for
		// synctest, one polling on the fake clock is)
		src4, changed4, err := rewriteImport(cur, "sync", "github.com/tdewolff/minify/v2/verifsync", "")
		if err != nil {
			return nil, err
		}
		if changed4 {
			dst := filepath.Join(scratch, "cli4_"+filepath.Base(f))
			if err := os.WriteFile(dst, src4, 0o644); err != nil {
				return nil, err
			}
			o.Replace[f] = dst
			cur = dst
		}
		// fifth seam: the functions of path/filepath that reach the disk (EvalSymlinks)
		src5, changed5, err := rewriteImport(cur, "path/filepath", "github.com/tdewolff/minify/v2/veriffilepath", "")
		if err != nil {
			return nil, err
		}
		if changed5 {
			dst := filepath.Join(scratch, "cli5_"+filepath.Base(f))
			if err := os.WriteFile(dst, src5, 0o644); err != nil {
				return nil, err
			}
			o.Replace[f] = dst
		}
	}
	if rewritten == 0 {
		return nil, fmt.Errorf("no file of cmd/minify imports os: nothing to simulate")
	}
	tests, _ := filepath.Glob(filepath.Join(dir, "*_test.go"))
	blank := filepath.Join(scratch, "blank_test.go")
	if err := os.WriteFile(blank, []byte("package main\n"), 0o644); err != nil {
		return nil, err
	}
	for _, t := range tests {
		o.Replace[t] = blank
	}
	o.Replace[filepath.Join(dir, "verif_sim_test.go")] = filepath.Join(verif, "overlaysrc", "driver", "verif_sim_test.go")
	if err := mapDir(o, filepath.Join(verif, "overlaysrc", "verifos"), filepath.Join(repo, "verifos")); err != nil {
		return nil, err
	}
	if err := mapDir(o, filepath.Join(verif, "overlaysrc", "verifio"), filepath.Join(repo, "verifio")); err != nil {
		return nil, err
	}
	if err := mapDir(o, filepath.Join(verif, "overlaysrc", "verifsignal"), filepath.Join(repo, "verifsignal")); err != nil {
		return nil, err
	}
	if err := mapDir(o, filepath.Join(verif, "overlaysrc", "verifsync"), filepath.Join(repo, "verifsync")); err != nil {
		return nil, err
	}
	if err := mapDir(o, filepath.Join(verif, "overlaysrc", "veriffilepath"), filepath.Join(repo, "veriffilepath")); err != nil {
		return nil, err
	}
	return o, nil
}

// ---------------------------------------------------------------------------------------
// Simulated time for C10: a deterministic work counter. Every function entry and every
// loop body of the minifier packages and of the parse module they sit on gets
// `verifcost.C[id]++` (id = one per function) inserted textually right after the opening
// brace, on the same line, so that line numbers, comments and stack traces stay as they
// are. One tick is one function call or one loop iteration; the harness reads the counters
// the way a discrete-event simulator reads its clock.

// CostPackages lists the packages of /repo that are instrumented; the sub-packages of
// github.com/tdewolff/parse/v2 that they import are added by Cost.
var CostPackages = []string{".", "css", "html", "js", "json", "svg", "xml"}

var costParsePkgs = []string{".", "buffer", "css", "html", "js", "json", "strconv", "xml"}

// Cost adds the instrumented files to o and returns the generated names file (function
// names indexed by counter id). parseDir is a private writable copy of the parse module, which
// the build uses through a replace directive.
func Cost(o *Overlay, repo, parseDir, scratch string) ([]byte, error) {
	type unit struct{ dir, label string }
	var units []unit
	for _, p := range CostPackages {
		l := "minify/" + p
		if p == "." {
			l = "minify"
		}
		units = append(units, unit{filepath.Join(repo, p), l})
	}
	for _, p := range costParsePkgs {
		l := "parse/" + p
		if p == "." {
			l = "parse"
		}
		units = append(units, unit{filepath.Join(parseDir, p), l})
	}
	var names []string
	for ui, u := range units {
		files, err := goFiles(u.dir)
		if err != nil {
			return nil, err
		}
		for fi, f := range files {
			cur := f
			if r, ok := o.Replace[f]; ok {
				cur = r
			}
			src, err := os.ReadFile(cur)
			if err != nil {
				return nil, err
			}
			out, added, err := instrumentCost(f, src, u.label, &names)
			if err != nil {
				return nil, err
			}
			if !added {
				continue
			}
			if strings.HasPrefix(f, parseDir+string(filepath.Separator)) {
				// parseDir is a private, writable copy of the module (files of the module
				// cache cannot be overlaid): instrument it in place
				if err := os.WriteFile(f, out, 0o644); err != nil {
					return nil, err
				}
				continue
			}
			dst := filepath.Join(scratch, fmt.Sprintf("cost_%d_%d_%s", ui, fi, filepath.Base(f)))
			if err := os.WriteFile(dst, out, 0o644); err != nil {
				return nil, err
			}
			o.Replace[f] = dst
		}
	}
	if len(names) > 16000 {
		return nil, fmt.Errorf("cost instrumentation: %d functions, counter table too small", len(names))
	}
	var b bytes.Buffer
	b.WriteString("// Code generated by overlaygen. DO NOT EDIT.\n\npackage verifcost\n\nfunc init() {\n\tNames = []string{\n")
	for _, n := range names {
		fmt.Fprintf(&b, "\t\t%q,\n", n)
	}
	b.WriteString("\t}\n}\n")
	return b.Bytes(), nil
}

const costImport = "github.com/tdewolff/minify/v2/verifcost"

func instrumentCost(file string, src []byte, label string, names *[]string) ([]byte, bool, error) {
	fset := token.NewFileSet()
	f, err := parser.ParseFile(fset, file, src, parser.ParseComments)
	if err != nil {
		return nil, false, err
	}
	if f.Name.Name == "main" {
		return nil, false, nil
	}
	for _, im := range f.Imports {
		if im.Name != nil && im.Name.Name == "verifcost" {
			return nil, false, fmt.Errorf("%s already uses the name verifcost", file)
		}
	}
	type ins struct {
		off  int
		id   int
		text string // "" = one tick
	}
	var inserts []ins
	// hidden linear work: copy(dst, src) and append(dst, src...) move len(src) bytes in one
	// "step"; they are charged one tick per 8 elements, evaluated just before the simple
	// statement they occur in (only when the source expression has no calls or receives, so
	// that evaluating it twice changes nothing)
	simple := func(e ast.Expr) bool {
		ok := true
		ast.Inspect(e, func(x ast.Node) bool {
			switch u := x.(type) {
			case *ast.CallExpr:
				if f, isID := u.Fun.(*ast.Ident); isID && (f.Name == "len" || f.Name == "cap") && len(u.Args) == 1 {
					return true // len/cap of a simple expression is as harmless as the expression
				}
				ok = false
			case *ast.FuncLit:
				ok = false
			case *ast.UnaryExpr:
				if u.Op == token.ARROW {
					ok = false
				}
			}
			return ok
		})
		return ok
	}
	bulk := func(list []ast.Stmt, id int) {
		for _, st := range list {
			switch st.(type) {
			case *ast.ExprStmt, *ast.AssignStmt, *ast.ReturnStmt, *ast.DeclStmt:
			default:
				continue
			}
			ast.Inspect(st, func(x ast.Node) bool {
				if _, ok := x.(*ast.FuncLit); ok {
					return false
				}
				c, ok := x.(*ast.CallExpr)
				if ok {
					// make(T, n) / make(T, n, c): allocating and clearing c elements is work and
					// memory proportional to c; charged like a bulk move of c elements
					if fn, isID := c.Fun.(*ast.Ident); isID && fn.Name == "make" && (len(c.Args) == 2 || len(c.Args) == 3) {
						sz := c.Args[len(c.Args)-1]
						if simple(sz) {
							a, b := fset.Position(sz.Pos()).Offset, fset.Position(sz.End()).Offset
							inserts = append(inserts, ins{fset.Position(st.Pos()).Offset, id, fmt.Sprintf(" verifcost.C[%d] += verifcost.Bulk(int(%s), int(%s)); ", id, src[a:b], src[a:b])})
						}
						return true
					}
				}
				if !ok || len(c.Args) != 2 {
					return true
				}
				fn, ok := c.Fun.(*ast.Ident)
				if !ok || !(fn.Name == "copy" || fn.Name == "append" && c.Ellipsis.IsValid()) {
					return true
				}
				if !simple(c.Args[1]) {
					return true
				}
				a, b := fset.Position(c.Args[1].Pos()).Offset, fset.Position(c.Args[1].End()).Offset
				if fn.Name == "copy" {
					// copy moves min(len(dst), len(src)) elements
					if !simple(c.Args[0]) {
						return true
					}
					d0, d1 := fset.Position(c.Args[0].Pos()).Offset, fset.Position(c.Args[0].End()).Offset
					inserts = append(inserts, ins{fset.Position(st.Pos()).Offset, id, fmt.Sprintf(" verifcost.C[%d] += verifcost.Bulk(len(%s), len(%s)); ", id, src[d0:d1], src[a:b])})
					return true
				}
				inserts = append(inserts, ins{fset.Position(st.Pos()).Offset, id, fmt.Sprintf(" verifcost.C[%d] += verifcost.Bulk(len(%s), len(%s)); ", id, src[a:b], src[a:b])})
				return true
			})
		}
	}
	newID := func(name string) int {
		*names = append(*names, label+"."+name)
		return len(*names) - 1
	}
	var walk func(n ast.Node, id int)
	walk = func(n ast.Node, id int) {
		ast.Inspect(n, func(x ast.Node) bool {
			switch s := x.(type) {
			case *ast.FuncLit:
				if s.Body != nil {
					inserts = append(inserts, ins{fset.Position(s.Body.Lbrace).Offset + 1, id, ""})
				}
			case *ast.ForStmt:
				inserts = append(inserts, ins{fset.Position(s.Body.Lbrace).Offset + 1, id, ""})
			case *ast.RangeStmt:
				inserts = append(inserts, ins{fset.Position(s.Body.Lbrace).Offset + 1, id, ""})
			case *ast.BlockStmt:
				bulk(s.List, id)
			case *ast.CaseClause:
				bulk(s.Body, id)
			case *ast.CommClause:
				bulk(s.Body, id)
			}
			return true
		})
	}
	litID := -1
	for _, d := range f.Decls {
		switch fd := d.(type) {
		case *ast.FuncDecl:
			if fd.Body == nil {
				continue
			}
			name := fd.Name.Name
			if fd.Recv != nil && len(fd.Recv.List) == 1 {
				var tb bytes.Buffer
				format.Node(&tb, fset, fd.Recv.List[0].Type)
				name = "(" + tb.String() + ")." + name
			}
			id := newID(name)
			inserts = append(inserts, ins{fset.Position(fd.Body.Lbrace).Offset + 1, id, ""})
			walk(fd.Body, id)
		case *ast.GenDecl:
			// function literals in package-level initialisers
			has := false
			ast.Inspect(fd, func(x ast.Node) bool {
				if _, ok := x.(*ast.FuncLit); ok {
					has = true
				}
				return !has
			})
			if has {
				if litID < 0 {
					litID = newID(filepath.Base(file) + ":func-literal")
				}
				walk(fd, litID)
			}
		}
	}
	if len(inserts) == 0 {
		return nil, false, nil
	}
	// back to front; at equal offsets the brace tick (recorded first) must end up before the
	// statement charge, so it is inserted last
	sort.SliceStable(inserts, func(i, j int) bool {
		if inserts[i].off != inserts[j].off {
			return inserts[i].off > inserts[j].off
		}
		return inserts[i].text != "" && inserts[j].text == ""
	})
	out := append([]byte(nil), src...)
	for _, in := range inserts {
		tick := []byte(fmt.Sprintf(" verifcost.C[%d]++; ", in.id))
		if in.text != "" {
			tick = []byte(in.text)
		}
		out = append(out[:in.off], append(tick, out[in.off:]...)...)
	}
	// the import goes on the line of the package clause
	pos := fset.Position(f.Name.End()).Offset
	imp := []byte("; import verifcost " + strconv.Quote(costImport))
	out = append(out[:pos], append(imp, out[pos:]...)...)
	if _, err := parser.ParseFile(token.NewFileSet(), file, out, 0); err != nil {
		return nil, false, fmt.Errorf("cost-instrumented %s does not parse: %v", file, err)
	}
	return out, true, nil
}
