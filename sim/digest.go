package sim

import (
	"hash/fnv"
	"math"
	"reflect"
	"sort"
	"strings"
	"unsafe"
)

// DeepDigest hashes the complete state reachable from a list of pointers to variables:
// basic values, strings, arrays, slices INCLUDING the bytes between len and cap (writing
// through the spare capacity of a shared slice is exactly the bug this looks for), maps
// (in key order), structs including unexported fields, and pointers (followed once).
// Functions, channels, interfaces holding foreign types and anything from packages sync,
// regexp, log and os are skipped: they have internal state that legitimately changes.
// One digest per variable is returned, so that a difference names the culprit.
func DeepDigest(ptrs []any) []uint64 {
	out := make([]uint64, len(ptrs))
	for i, p := range ptrs {
		h := fnv.New64a()
		d := &digester{w: h.Write, seen: map[uintptr]bool{}}
		v := reflect.ValueOf(p)
		if v.Kind() == reflect.Pointer && !v.IsNil() {
			d.value(v.Elem(), 0)
		}
		out[i] = h.Sum64()
	}
	return out
}

type digester struct {
	w    func([]byte) (int, error)
	seen map[uintptr]bool
	buf  [8]byte
}

func (d *digester) u64(x uint64) {
	for i := 0; i < 8; i++ {
		d.buf[i] = byte(x >> (8 * i))
	}
	d.w(d.buf[:])
}

func skipType(t reflect.Type) bool {
	p := t.PkgPath()
	if p == "" && (t.Kind() == reflect.Pointer || t.Kind() == reflect.Slice || t.Kind() == reflect.Array || t.Kind() == reflect.Map) {
		return skipType(t.Elem())
	}
	return p == "sync" || p == "sync/atomic" || p == "regexp" || p == "regexp/syntax" || p == "log" || p == "os" || p == "os/exec" || strings.HasPrefix(p, "internal/")
}

func (d *digester) value(v reflect.Value, depth int) {
	if depth > 64 || !v.IsValid() {
		return
	}
	if skipType(v.Type()) {
		return
	}
	switch v.Kind() {
	case reflect.Bool:
		if v.Bool() {
			d.u64(1)
		} else {
			d.u64(0)
		}
	case reflect.Int, reflect.Int8, reflect.Int16, reflect.Int32, reflect.Int64:
		d.u64(uint64(v.Int()))
	case reflect.Uint, reflect.Uint8, reflect.Uint16, reflect.Uint32, reflect.Uint64, reflect.Uintptr:
		d.u64(v.Uint())
	case reflect.Float32, reflect.Float64:
		d.u64(math.Float64bits(v.Float()))
	case reflect.Complex64, reflect.Complex128:
		c := v.Complex()
		d.u64(math.Float64bits(real(c)))
		d.u64(math.Float64bits(imag(c)))
	case reflect.String:
		d.u64(uint64(v.Len()))
		d.w([]byte(v.String()))
	case reflect.Array:
		for i := 0; i < v.Len(); i++ {
			d.value(v.Index(i), depth+1)
		}
	case reflect.Slice:
		if v.IsNil() {
			d.u64(0xFFFFFFFF)
			return
		}
		d.u64(uint64(v.Len()))
		d.u64(uint64(v.Cap()))
		n := v.Cap()
		if n > 0 && v.Type().Elem().Kind() == reflect.Uint8 {
			// fast path for byte slices, up to cap
			p := unsafe.Pointer(v.Pointer())
			d.w(unsafe.Slice((*byte)(p), n))
			return
		}
		full := v.Slice(0, v.Cap())
		for i := 0; i < full.Len(); i++ {
			d.value(full.Index(i), depth+1)
		}
	case reflect.Map:
		if v.IsNil() {
			d.u64(0xFFFFFFFE)
			return
		}
		keys := v.MapKeys()
		type kv struct {
			k string
			v reflect.Value
		}
		items := make([]kv, 0, len(keys))
		for _, k := range keys {
			sub := fnv.New64a()
			dd := &digester{w: sub.Write, seen: d.seen}
			dd.value(k, depth+1)
			items = append(items, kv{string(sub.Sum(nil)), v.MapIndex(k)})
		}
		sort.Slice(items, func(i, j int) bool { return items[i].k < items[j].k })
		d.u64(uint64(len(items)))
		for _, it := range items {
			d.w([]byte(it.k))
			d.value(it.v, depth+1)
		}
	case reflect.Struct:
		for i := 0; i < v.NumField(); i++ {
			d.value(v.Field(i), depth+1)
		}
	case reflect.Pointer:
		if v.IsNil() {
			d.u64(0xFFFFFFFD)
			return
		}
		p := v.Pointer()
		if d.seen[p] {
			return
		}
		d.seen[p] = true
		d.value(v.Elem(), depth+1)
	case reflect.Interface:
		if v.IsNil() {
			d.u64(0xFFFFFFFC)
			return
		}
		d.value(v.Elem(), depth+1)
	}
}
