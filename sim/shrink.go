package sim

// Shrink minimises a tape while still(vals) stays true (the same violation kind at the
// same site still occurs). It works on the tape only, so it is the same for in-process
// cases and for one-process-per-run cases: delete blocks of draws, zero single draws,
// halve and decrement values. Because 0 always means the simplest choice, the result
// converges on short, mostly sequential runs with the one fault or preemption that
// matters. budget bounds the number of calls to still.
func Shrink(vals []uint64, still func([]uint64) bool, budget int) []uint64 {
	cur := append([]uint64(nil), vals...)
	trim := func(v []uint64) []uint64 {
		for len(v) > 0 && v[len(v)-1] == 0 {
			v = v[:len(v)-1]
		}
		return v
	}
	cur = trim(cur)
	try := func(c []uint64) bool {
		if budget <= 0 {
			return false
		}
		budget--
		c = trim(c)
		if still(c) {
			cur = append([]uint64(nil), c...)
			return true
		}
		return false
	}
	for pass := 0; pass < 8 && budget > 0; pass++ {
		changed := false
		// 1. truncate the tail
		for n := len(cur) / 2; n >= 1 && budget > 0; n /= 2 {
			for len(cur) > n && try(cur[:len(cur)-n]) {
				changed = true
			}
		}
		// 2. delete blocks
		for bs := 8; bs >= 1 && budget > 0; bs /= 2 {
			for i := 0; i+bs <= len(cur) && budget > 0; {
				c := append(append([]uint64(nil), cur[:i]...), cur[i+bs:]...)
				if try(c) {
					changed = true
				} else {
					i++
				}
			}
		}
		// 3. zero blocks, then single values; then halve; then decrement
		for bs := 8; bs >= 1 && budget > 0; bs /= 2 {
			for i := 0; i+bs <= len(cur) && budget > 0; i++ {
				all0 := true
				for _, v := range cur[i : i+bs] {
					if v != 0 {
						all0 = false
					}
				}
				if all0 {
					continue
				}
				c := append([]uint64(nil), cur...)
				for j := i; j < i+bs; j++ {
					c[j] = 0
				}
				if try(c) {
					changed = true
				}
			}
		}
		for i := 0; i < len(cur) && budget > 0; i++ {
			for cur[i] > 0 && budget > 0 {
				c := append([]uint64(nil), cur...)
				c[i] = cur[i] / 2
				if try(c) {
					changed = true
					if i >= len(cur) {
						break
					}
					continue
				}
				c = append([]uint64(nil), cur...)
				c[i] = cur[i] - 1
				if try(c) {
					changed = true
					if i >= len(cur) {
						break
					}
					continue
				}
				break
			}
		}
		if !changed {
			break
		}
	}
	return cur
}
