package sim

import (
	"fmt"
	"runtime/debug"
	"testing/synctest"
	"time"
)

// The scheduler decides which goroutine proceeds, nothing else. Tasks are real goroutines
// running real code. A goroutine that reaches a yield point parks by polling a plain flag
// with a fake-clock sleep; the scheduler waits for quiescence of the whole bubble
// (synctest.Wait), lists the parked points in canonical order, lets the tape pick one and
// sets its flag. All scheduler state is touched only inside //go:norace functions and
// tasks are never released through a channel, mutex or atomic, so the hand-off creates no
// happens-before edge between tasks: the race detector still sees every pair of
// conflicting accesses made by different tasks, although the execution is serial.
//
// Rule (i): everything a task decides is drawn by the scheduler goroutine before the
// task starts. Rule (ii): a task publishes results only into its own slot, read after
// synctest.Wait.

// Point is the owner of a yield point: a task, a reader double, a writer double.
type Point struct {
	ID      int
	Name    string
	s       *Sched
	parked  bool
	granted bool
	op      string
	arg     int
	yields  int
}

// Task is a harness goroutine.
type Task struct {
	*Point
	done     bool
	panicVal any
	panicStk string
}

// Violation is what a case reports. Kind+Site is the identity used for shrinking and for
// the known-findings file; Detail is free text for the reader.
type Violation struct {
	Kind   string `json:"kind"`
	Site   string `json:"site"`
	Detail string `json:"detail"`
}

func (v *Violation) Key() string {
	if v == nil {
		return ""
	}
	return v.Kind + "@" + v.Site
}

func (v *Violation) Error() string { return v.Kind + " @ " + v.Site + ": " + v.Detail }

// Sched is one simulated execution. It must be created and run inside a synctest bubble.
type Sched struct {
	tape     *Tape
	points   []*Point
	tasks    []*Task
	off      bool
	Steps    int
	MaxSteps int
	// Stick: 0 = uniform choice at every step; k>0 = keep running the previous point
	// with probability k/(k+1) when it is parked again.
	Stick int
	last  *Point
	// hash of the granted (point name, op) sequence: the measure of distinct schedules.
	TraceHash uint64
	Trace     []string
	KeepTrace bool
	// flag raised by doubles/facades from inside the run (would-block, write after close…)
	flag *Violation
	// Preempts counts steps at which a point other than the previous one was granted
	// although the previous one was runnable.
	Preempts int
	// MaxParked is the largest number of simultaneously parked points (concurrency reach).
	MaxParked int
	// Waiters, when set, returns the number of goroutines polling for a lock of the code
	// under test (lock facade). LockWaits counts quiescent points at which one was still
	// waiting although the clock had been advanced: the holder is parked inside I/O.
	// FlagLockWait makes that a violation.
	Waiters      func() int64
	LockWaits    int
	FlagLockWait bool
	// OnStop is called when the run ends, before the remaining goroutines are let loose.
	OnStop func()
}

func NewSched(t *Tape) *Sched {
	return &Sched{tape: t, MaxSteps: 1 << 20, TraceHash: 14695981039346656037}
}

// NewPoint registers a yield-point owner. Must be called from the scheduler goroutine
// before Run.
func (s *Sched) NewPoint(name string) *Point {
	p := &Point{ID: len(s.points), Name: name, s: s}
	s.points = append(s.points, p)
	return p
}

// Yield parks the calling goroutine until the scheduler grants this point.
// A nil point or a finished scheduler never blocks.
//
//go:norace
func (p *Point) Yield(op string, arg int) {
	if p == nil || p.s == nil || p.s.off {
		return
	}
	p.op, p.arg = op, arg
	p.yields++
	p.parked = true
	for !p.granted && !p.s.off {
		time.Sleep(1)
	}
	p.granted = false
	p.parked = false
}

// Aborted reports whether the run has been ended (violation found or finished); doubles
// use it to unwind quickly.
//
//go:norace
func (p *Point) Aborted() bool { return p != nil && p.s != nil && p.s.off }

// Flag records a violation observed from inside the run; the scheduler ends the run at
// the next quiescent point. The first flag wins.
//
//go:norace
func (s *Sched) Flag(kind, site, detail string) {
	if s == nil || s.flag != nil {
		return
	}
	s.flag = &Violation{Kind: kind, Site: site, Detail: detail}
}

// Go starts a task. All tasks must be started before Run so that the only
// happens-before edges are scheduler→task.
func (s *Sched) Go(name string, f func(t *Task)) *Task {
	t := &Task{Point: s.NewPoint(name)}
	s.tasks = append(s.tasks, t)
	go t.run(f)
	return t
}

func (t *Task) run(f func(t *Task)) {
	defer t.finish()
	t.Yield("start", 0)
	f(t)
}

//go:norace
func (t *Task) finish() {
	if r := recover(); r != nil {
		t.panicVal = r
		t.panicStk = string(debug.Stack())
	}
	t.done = true
}

//go:norace
func (s *Sched) parkedPoints(buf []*Point) []*Point {
	buf = buf[:0]
	for _, p := range s.points {
		if p.parked {
			buf = append(buf, p)
		}
	}
	return buf
}

//go:norace
func (s *Sched) allDone() (bool, string) {
	for _, t := range s.tasks {
		if !t.done {
			return false, t.Name
		}
	}
	return true, ""
}

//go:norace
func (s *Sched) taskPanic() *Violation {
	for _, t := range s.tasks {
		if t.panicVal != nil {
			return &Violation{Kind: "panic", Site: t.Name, Detail: fmt.Sprintf("%v\n%s", t.panicVal, t.panicStk)}
		}
	}
	return nil
}

//go:norace
func (s *Sched) grant(p *Point) {
	const prime = 1099511628211
	h := s.TraceHash
	for i := 0; i < len(p.Name); i++ {
		h = (h ^ uint64(p.Name[i])) * prime
	}
	for i := 0; i < len(p.op); i++ {
		h = (h ^ uint64(p.op[i])) * prime
	}
	s.TraceHash = h
	if s.KeepTrace && len(s.Trace) < 4096 {
		s.Trace = append(s.Trace, fmt.Sprintf("%s:%s(%d)", p.Name, p.op, p.arg))
	}
	s.last = p
	p.granted = true
}

//go:norace
func (s *Sched) stop() {
	if s.OnStop != nil {
		s.OnStop()
	}
	s.off = true
}

//go:norace
func (s *Sched) takeFlag() *Violation { return s.flag }

// Run drives the tasks to completion. It returns nil when every task has finished, or the
// violation that ended the run: a flag raised by a double, a panic in a task, a deadlock
// (quiescence with unfinished tasks and nothing parked) or an exhausted step budget.
func (s *Sched) Run() *Violation {
	defer s.stop()
	var buf []*Point
	for {
		synctest.Wait()
		if s.Waiters != nil && s.Waiters() > 0 {
			// let pollers retry without granting anything: a lock released just before this
			// quiescent point is then taken; one that stays taken is held by a parked goroutine
			for i := 0; i < 3 && s.Waiters() > 0; i++ {
				time.Sleep(1)
				synctest.Wait()
			}
			if s.Waiters() > 0 {
				s.LockWaits++
				if s.FlagLockWait {
					return &Violation{Kind: "would-block", Site: "lock", Detail: "a call is waiting for a lock that another call holds while it is parked inside I/O on its own reader/writer: calls block on one another"}
				}
			}
		}
		if v := s.takeFlag(); v != nil {
			return v
		}
		if v := s.taskPanic(); v != nil {
			return v
		}
		buf = s.parkedPoints(buf)
		if len(buf) == 0 {
			if ok, who := s.allDone(); !ok {
				return &Violation{Kind: "deadlock", Site: who, Detail: "quiescent: task " + who + " has not finished and nothing is runnable"}
			}
			return nil
		}
		if len(buf) > s.MaxParked {
			s.MaxParked = len(buf)
		}
		s.Steps++
		if s.Steps > s.MaxSteps {
			return &Violation{Kind: "no-progress", Site: buf[0].Name, Detail: fmt.Sprintf("step budget %d exhausted", s.MaxSteps)}
		}
		// canonical order: previous point first (so that 0 = "keep going"), then by id.
		lastIdx := -1
		for i, p := range buf {
			if p == s.last {
				lastIdx = i
			}
		}
		if lastIdx > 0 {
			p := buf[lastIdx]
			copy(buf[1:lastIdx+1], buf[:lastIdx])
			buf[0] = p
		}
		i := 0
		if len(buf) > 1 {
			if s.Stick > 0 && lastIdx >= 0 && s.tape.Draw(s.Stick+1) != s.Stick {
				i = 0
			} else {
				i = s.tape.Draw(len(buf))
			}
			if lastIdx >= 0 && i != 0 {
				s.Preempts++
			}
		}
		s.grant(buf[i])
		time.Sleep(1)
	}
}
