package sim

import (
	"testing"
	"testing/synctest"
)

func TestTapeReplayIsExact(t *testing.T) {
	a := NewTape(7, "s", 3)
	var got []int
	for i := 0; i < 50; i++ {
		got = append(got, a.Draw(2+i%7))
	}
	b := ReplayTape(a.Recorded())
	for i := 0; i < 50; i++ {
		if v := b.Draw(2 + i%7); v != got[i] {
			t.Fatalf("draw %d: %d != %d", i, v, got[i])
		}
	}
	if b.Draw(10) != 0 {
		t.Fatal("exhausted replay tape must yield 0")
	}
	c := NewTape(7, "s", 3)
	if c.Draw(2) != got[0] {
		t.Fatal("same (seed, stream, index) must give the same tape")
	}
}

func TestShrinkFindsMinimal(t *testing.T) {
	// "violation" iff position 5 holds a value >= 3
	still := func(v []uint64) bool { return len(v) > 5 && v[5] >= 3 }
	in := []uint64{9, 8, 7, 6, 5, 40, 3, 2, 1, 0, 5, 5}
	out := Shrink(in, still, 1000)
	if !still(out) {
		t.Fatal("shrunk tape lost the violation")
	}
	if len(out) != 6 || out[5] != 3 {
		t.Fatalf("not minimal: %v", out)
	}
	for _, v := range out[:5] {
		if v != 0 {
			t.Fatalf("irrelevant draws not zeroed: %v", out)
		}
	}
}

func TestDeepDigestSeesSpareCapacity(t *testing.T) {
	b := make([]byte, 2, 8)
	m := map[string][]int{"a": {1, 2}}
	type s struct {
		x int
		y []byte
	}
	v := s{1, b}
	d0 := DeepDigest([]any{&b, &m, &v})
	_ = append(b, 'x') // writes into the spare capacity, len unchanged
	d1 := DeepDigest([]any{&b, &m, &v})
	if d0[0] == d1[0] || d0[2] == d1[2] {
		t.Fatal("write into spare capacity not seen")
	}
	if d0[1] != d1[1] {
		t.Fatal("unrelated variable changed digest")
	}
	m["a"][1] = 3
	if d2 := DeepDigest([]any{&b, &m, &v}); d2[1] == d1[1] {
		t.Fatal("map element change not seen")
	}
}

func TestSchedulerSerialAndDeterministic(t *testing.T) {
	run := func(vals []uint64) (string, uint64) {
		var order string
		var hash uint64
		synctest.Test(t, func(*testing.T) {
			s := NewSched(ReplayTape(vals))
			for i := 0; i < 3; i++ {
				name := string(rune('a' + i))
				s.Go(name, func(tk *Task) {
					for k := 0; k < 2; k++ {
						tk.Yield("step", k)
						order += name
					}
				})
			}
			if v := s.Run(); v != nil {
				t.Fatal(v)
			}
			hash = s.TraceHash
		})
		return order, hash
	}
	o1, h1 := run([]uint64{2, 1, 0, 2, 1})
	o2, h2 := run([]uint64{2, 1, 0, 2, 1})
	if o1 != o2 || h1 != h2 {
		t.Fatalf("same tape, different runs: %q %q", o1, o2)
	}
	o3, _ := run(nil)
	if o3 != "aabbcc" {
		t.Fatalf("zero tape must run tasks to completion in id order, got %q", o3)
	}
	if o1 == o3 {
		t.Fatalf("tape had no influence: %q", o1)
	}
}

func TestDeadlockIsReported(t *testing.T) {
	var v *Violation
	defer func() { recover() }()
	synctest.Test(t, func(*testing.T) {
		s := NewSched(ReplayTape(nil))
		ch := make(chan int)
		s.Go("stuck", func(tk *Task) { <-ch })
		v = s.Run()
		if v == nil || v.Kind != "deadlock" {
			t.Errorf("want deadlock, got %v", v)
		}
		close(ch)
	})
}
