// Package sim is the deterministic-simulation core shared by every check: the choice
// tape (one seed decides everything), the seeded scheduler over real goroutines, the
// reader/writer doubles with fault injection, the shrinker and the result records.
package sim

import (
	"encoding/binary"
	"hash/fnv"
	"math/rand/v2"
)

// Tape is the single source of choice of a simulated run. In search mode it is filled
// lazily from a PCG generator; in replay mode it is read back and, once exhausted,
// every draw returns 0, which by convention is always the simplest choice (first
// candidate, one chunk, no fault).
type Tape struct {
	Vals []uint64
	pos  int
	rng  *rand.Rand
	// Log, when set, is called with every value drawn (replay of crashed cases).
	Log func(v uint64)
}

// NewTape returns a search-mode tape whose content is a pure function of the arguments.
func NewTape(seed uint64, stream string, index uint64) *Tape {
	h := fnv.New64a()
	h.Write([]byte(stream))
	var b [8]byte
	binary.LittleEndian.PutUint64(b[:], index)
	h.Write(b[:])
	return &Tape{rng: rand.New(rand.NewPCG(seed, h.Sum64()))}
}

// ReplayTape returns a tape that replays vals and then yields zeros.
func ReplayTape(vals []uint64) *Tape {
	return &Tape{Vals: append([]uint64(nil), vals...)}
}

// Draw returns a value in [0,n). n<=1 consumes nothing and returns 0, so that adding a
// degenerate choice to a generator does not shift recorded tapes.
func (t *Tape) Draw(n int) int {
	if n <= 1 {
		return 0
	}
	if t.pos < len(t.Vals) {
		v := t.Vals[t.pos] % uint64(n)
		t.pos++
		if t.Log != nil {
			t.Log(v)
		}
		return int(v)
	}
	t.pos++
	if t.rng == nil {
		if t.Log != nil {
			t.Log(0)
		}
		return 0
	}
	for len(t.Vals) < t.pos-1 {
		t.Vals = append(t.Vals, 0)
	}
	v := uint64(t.rng.IntN(n))
	t.Vals = append(t.Vals, v)
	if t.Log != nil {
		t.Log(v)
	}
	return int(v)
}

// Bool draws a boolean that is true with probability num/den; 0 on the tape is false.
func (t *Tape) Bool(num, den int) bool {
	return t.Draw(den) >= den-num
}

// Range draws from [lo,hi].
func (t *Tape) Range(lo, hi int) int {
	if hi <= lo {
		return lo
	}
	return lo + t.Draw(hi-lo+1)
}

// Used is the number of draws made so far.
func (t *Tape) Used() int { return t.pos }

// Recorded returns the draws made so far (trailing zeros trimmed: they are implied).
func (t *Tape) Recorded() []uint64 {
	n := t.pos
	if n > len(t.Vals) {
		n = len(t.Vals)
	}
	v := append([]uint64(nil), t.Vals[:n]...)
	for len(v) > 0 && v[len(v)-1] == 0 {
		v = v[:len(v)-1]
	}
	return v
}
