package sim

import (
	"errors"
	"fmt"
	"io"
	"net"
	"net/http"
	"os"
	"syscall"
)

// ErrInjectedRead / ErrInjectedWrite are the fail-stop faults of the doubles.
var (
	ErrInjectedRead  = errors.New("sim: injected read error")
	ErrInjectedWrite = errors.New("sim: injected write error")
	ErrAborted       = errors.New("sim: run aborted")
	// ErrInjectedReadEOF is a read FAILURE whose chain contains io.EOF (a transport that
	// reports "connection closed early: EOF"): only the bare io.EOF value means end of input.
	ErrInjectedReadEOF = fmt.Errorf("sim: injected read error, connection closed early: %w", io.EOF)
	// ErrInjectedWriteEOF: a write FAILURE whose chain contains io.EOF (the peer went away)
	ErrInjectedWriteEOF = fmt.Errorf("sim: injected write error, peer closed the connection: %w", io.EOF)
	// what a TCP connection returns when the client has gone away
	ErrInjectedEPIPE      = &net.OpError{Op: "write", Net: "tcp", Err: os.NewSyscallError("write", syscall.EPIPE)}
	ErrInjectedECONNRESET = &net.OpError{Op: "write", Net: "tcp", Err: os.NewSyscallError("write", syscall.ECONNRESET)}
)

// All methods of the doubles are //go:norace and use only built-ins on their own state,
// so the doubles never appear in a race report and never synchronise the goroutines that
// use them.

// SimReader delivers Data in tape-chosen chunks and can fail.
type SimReader struct {
	P      *Point // may be nil: no yield
	Data   []byte
	Chunks []int // successive read sizes (0 = zero-byte read with nil error); then the rest at once
	// FailAt >= 0: after FailAt bytes have been delivered the next Read fails with FailErr
	// (fail-stop: every later Read fails too). With FailWithData the failing Read is the one
	// that delivers the last bytes before FailAt: (n>0, err).
	FailAt       int
	FailErr      error
	FailWithData bool
	// TruncAt >= 0: premature io.EOF after TruncAt bytes.
	TruncAt int
	// EOFWithData: the last chunk is returned together with io.EOF.
	EOFWithData bool

	pos, ci   int
	Reads     int
	Fired     bool // the injected error was actually returned
	EOFSeen   bool
	AfterFail int // reads attempted after the fault fired
}

func NewSimReader(p *Point, data []byte) *SimReader {
	return &SimReader{P: p, Data: data, FailAt: -1, TruncAt: -1}
}

//go:norace
func (r *SimReader) Read(b []byte) (int, error) {
	r.P.Yield("read", len(b))
	if r.P.Aborted() {
		return 0, ErrAborted
	}
	r.Reads++
	if r.Fired {
		r.AfterFail++
		return 0, r.FailErr
	}
	end := len(r.Data)
	if r.TruncAt >= 0 && r.TruncAt < end {
		end = r.TruncAt
	}
	if r.FailAt >= 0 && r.FailAt < end {
		end = r.FailAt
	}
	if r.pos >= end {
		if r.FailAt >= 0 && r.pos >= r.FailAt {
			r.Fired = true
			return 0, r.FailErr
		}
		r.EOFSeen = true
		return 0, io.EOF
	}
	if len(b) == 0 {
		return 0, nil
	}
	n := end - r.pos
	if r.ci < len(r.Chunks) {
		if c := r.Chunks[r.ci]; c < n {
			n = c
		}
		r.ci++
	}
	if n > len(b) {
		n = len(b)
	}
	copy(b[:n], r.Data[r.pos:r.pos+n])
	r.pos += n
	if r.pos >= end && n > 0 {
		if r.FailAt >= 0 && r.pos >= r.FailAt && r.FailWithData {
			r.Fired = true
			return n, r.FailErr
		}
		if !(r.FailAt >= 0 && r.pos >= r.FailAt) && r.EOFWithData {
			r.EOFSeen = true
			return n, io.EOF
		}
	}
	return n, nil
}

// Delivered is the number of bytes handed out so far.
//
//go:norace
func (r *SimReader) Delivered() int { return r.pos }

// BytesReader is a SimReader that also offers Bytes(), which parse.NewInput prefers over
// Read (zero-copy path: the minifier then works on the caller's array).
type BytesReader struct{ *SimReader }

//go:norace
func (r BytesReader) Bytes() []byte { return r.Data }

// WriteRec is one recorded Write call.
type WriteRec struct {
	Len  int
	Step int // scheduler step at which it happened (0 outside a scheduler)
}

// SimWriter records everything written to it and can start failing at its k-th call
// (0-based) and then fails forever.
type SimWriter struct {
	P       *Point
	Buf     []byte
	Calls   int
	Recs    []WriteRec
	FailAt  int // -1: never
	FailErr error
	Short   bool // failing calls accept len/2 bytes before failing (short write with error)
	Fired   bool
	// Sealed: set by the harness at the event "Close returned"; a later Write is recorded.
	Sealed     bool
	LateWrites int
	ZeroProbes int
}

func NewSimWriter(p *Point) *SimWriter { return &SimWriter{P: p, FailAt: -1} }

//go:norace
func (w *SimWriter) Write(b []byte) (int, error) {
	w.P.Yield("write", len(b))
	if w.P.Aborted() {
		return 0, ErrAborted
	}
	k := w.Calls
	w.Calls++
	if w.Sealed {
		w.LateWrites++
	}
	if len(b) == 0 {
		w.ZeroProbes++
	}
	step := 0
	if w.P != nil && w.P.s != nil {
		step = w.P.s.Steps
	}
	if len(w.Recs) < 1<<16 {
		w.Recs = append(w.Recs, WriteRec{len(b), step})
	}
	if w.FailAt >= 0 && k >= w.FailAt {
		w.Fired = true
		n := 0
		if w.Short {
			n = len(b) / 2
			w.Buf = append(w.Buf, b[:n]...)
		}
		return n, w.FailErr
	}
	w.Buf = append(w.Buf, b...)
	return len(b), nil
}

//go:norace
func (w *SimWriter) Seal() { w.Sealed = true }

//go:norace
func (w *SimWriter) Snapshot() (buf []byte, calls int, late int) {
	return append([]byte(nil), w.Buf...), w.Calls, w.LateWrites
}

// SimResponseWriter is a stub of net/http's response: headers are frozen at the first
// WriteHeader or at the first body Write (implicit 200), like net/http.response.
type SimResponseWriter struct {
	W          *SimWriter
	H          http.Header
	Frozen     http.Header
	Status     int
	HeaderCall int
	// Informational counts 1xx WriteHeader calls (they do not freeze the headers)
	Informational int
}

func NewSimResponseWriter(w *SimWriter) *SimResponseWriter {
	return &SimResponseWriter{W: w, H: http.Header{}}
}

func (rw *SimResponseWriter) Header() http.Header { return rw.H }

func (rw *SimResponseWriter) freeze(status int) {
	if rw.Frozen == nil {
		rw.Frozen = rw.H.Clone()
		if rw.Frozen == nil {
			rw.Frozen = http.Header{}
		}
		rw.Status = status
	}
}

func (rw *SimResponseWriter) WriteHeader(status int) {
	rw.HeaderCall++
	if status >= 100 && status < 200 && status != 101 {
		// informational responses (103 Early Hints) do not end the header phase
		rw.Informational++
		return
	}
	rw.freeze(status)
}

func (rw *SimResponseWriter) Write(b []byte) (int, error) {
	rw.freeze(http.StatusOK)
	return rw.W.Write(b)
}
