// Package corpus collects input documents from the repository under test at build time:
// the input strings of the test tables (extracted with go/ast), the fuzz corpora under
// tests/*/corpus and the benchmark samples. Nothing is copied into /verif; the index is
// regenerated from /repo's working tree by every check.
package corpus

import (
	"encoding/json"
	"go/ast"
	"go/parser"
	"go/token"
	"os"
	"path/filepath"
	"sort"
	"strconv"
	"strings"
)

type Doc struct {
	MT   string `json:"mt"`
	Name string `json:"name"`
	Src  string `json:"src"` // table | fuzz | bench | builtin
	Data []byte `json:"data"`
}

var pkgMT = map[string]string{
	"html": "text/html",
	"css":  "text/css",
	"js":   "application/javascript",
	"json": "application/json",
	"svg":  "image/svg+xml",
	"xml":  "text/xml",
}

var extMT = map[string]string{
	".html": "text/html", ".css": "text/css", ".js": "application/javascript",
	".json": "application/json", ".svg": "image/svg+xml", ".xml": "text/xml",
}

// MediaTypes in canonical order.
var MediaTypes = []string{"text/html", "text/css", "application/javascript", "application/json", "image/svg+xml", "text/xml"}

// Extract builds the corpus from repo. maxFile bounds the size of fuzz/bench files taken.
func Extract(repo string, maxFile int) ([]Doc, error) {
	var docs []Doc
	seen := map[string]bool{}
	add := func(d Doc) {
		k := d.MT + "\x00" + string(d.Data)
		if seen[k] {
			return
		}
		seen[k] = true
		docs = append(docs, d)
	}
	pkgs := make([]string, 0, len(pkgMT))
	for p := range pkgMT {
		pkgs = append(pkgs, p)
	}
	sort.Strings(pkgs)
	for _, pkg := range pkgs {
		mt := pkgMT[pkg]
		files, _ := filepath.Glob(filepath.Join(repo, pkg, "*_test.go"))
		sort.Strings(files)
		for _, f := range files {
			ins, err := tableInputs(f)
			if err != nil {
				continue // a test file that does not parse is not our business
			}
			for i, s := range ins {
				add(Doc{MT: mt, Name: filepath.Base(f) + "#" + strconv.Itoa(i), Src: "table", Data: []byte(s)})
				if pkg == "css" && !strings.ContainsAny(s, "{}") && len(s) > 0 {
					// the tables for inline style declarations, put into the context of a rule so
					// that the declaration code paths are reached by a stylesheet too
					add(Doc{MT: mt, Name: filepath.Base(f) + "#" + strconv.Itoa(i) + "/rule", Src: "table", Data: []byte("a{" + s + "}")})
				}
			}
		}
		fuzz, _ := filepath.Glob(filepath.Join(repo, "tests", pkg, "corpus", "*"))
		sort.Strings(fuzz)
		for _, f := range fuzz {
			b, err := os.ReadFile(f)
			if err != nil || len(b) > maxFile {
				continue
			}
			add(Doc{MT: mt, Name: "tests/" + pkg + "/corpus/" + filepath.Base(f), Src: "fuzz", Data: b})
		}
	}
	bench, _ := filepath.Glob(filepath.Join(repo, "_benchmarks", "sample_*"))
	sort.Strings(bench)
	for _, f := range bench {
		mt, ok := extMT[filepath.Ext(f)]
		if !ok {
			continue
		}
		b, err := os.ReadFile(f)
		if err != nil || len(b) == 0 || len(b) > maxFile {
			continue
		}
		add(Doc{MT: mt, Name: "_benchmarks/" + filepath.Base(f), Src: "bench", Data: b})
	}
	for _, d := range Builtin() {
		add(d)
	}
	return docs, nil
}

// tableInputs returns the first string field of every element of every composite literal
// that is a slice/array of an anonymous struct whose first field is a string.
func tableInputs(file string) ([]string, error) {
	fset := token.NewFileSet()
	f, err := parser.ParseFile(fset, file, nil, 0)
	if err != nil {
		return nil, err
	}
	var out []string
	ast.Inspect(f, func(n ast.Node) bool {
		cl, ok := n.(*ast.CompositeLit)
		if !ok {
			return true
		}
		at, ok := cl.Type.(*ast.ArrayType)
		if !ok {
			return true
		}
		st, ok := at.Elt.(*ast.StructType)
		if !ok || st.Fields == nil || len(st.Fields.List) == 0 {
			return true
		}
		if id, ok := st.Fields.List[0].Type.(*ast.Ident); !ok || id.Name != "string" {
			return true
		}
		for _, e := range cl.Elts {
			el, ok := e.(*ast.CompositeLit)
			if !ok || len(el.Elts) == 0 {
				continue
			}
			first := el.Elts[0]
			if kv, ok := first.(*ast.KeyValueExpr); ok {
				first = kv.Value
			}
			if s, ok := stringConst(first); ok {
				out = append(out, s)
			}
		}
		return true
	})
	return out, nil
}

func stringConst(e ast.Expr) (string, bool) {
	switch v := e.(type) {
	case *ast.BasicLit:
		if v.Kind != token.STRING {
			return "", false
		}
		s, err := strconv.Unquote(v.Value)
		return s, err == nil
	case *ast.BinaryExpr:
		if v.Op != token.ADD {
			return "", false
		}
		a, ok1 := stringConst(v.X)
		b, ok2 := stringConst(v.Y)
		return a + b, ok1 && ok2
	case *ast.ParenExpr:
		return stringConst(v.X)
	}
	return "", false
}

// Builtin documents written for the harness: hosts whose embedded content re-enters the
// registry, and a few documents per type that make the minifier fail.
func Builtin() []Doc {
	h := func(name, s string) Doc {
		return Doc{MT: "text/html", Name: "builtin/" + name, Src: "builtin", Data: []byte(s)}
	}
	return []Doc{
		h("host1", `<!DOCTYPE html><html><head><style> a { color : #ff0000 ; } </style><script> var abc = 1 + 2 ; console.log( abc ) </script></head><body style=" margin : 0px ; " onclick=" return  false ; "><svg width="100" height="100"><style> rect { fill : red } </style><rect x="0.50" y="1.00" width="10" height="10" style=" stroke : #000000 "/></svg><p>  text  <b> bold </b>  </p></body></html>`),
		h("host2", `<div><script type="application/ld+json"> { "a" : [ 1 , 2.0 , 3e0 ] } </script><script type="module"> import x from "y" ; export default x </script><a href="data:text/css;base64,YSB7IGNvbG9yIDogcmVkIDsgfQ==">x</a><math><mi> x </mi></math></div>`),
		h("host3", `<p>a</p><iframe srcdoc="<p> x </p>"></iframe><style media="screen">@media screen { a { b : c } }</style><img src="data:image/svg+xml,%3Csvg%20xmlns='http://www.w3.org/2000/svg'%3E%3Cpath%20d='M 10 10 L 20 20'/%3E%3C/svg%3E">`),
		h("urls1", `<a href="https://example.com/dir/page.html">x</a><img src="http://example.com/i.png"><link href="data:text/css;base64,YSB7IGNvbG9yIDogcmVkIDsgfQ=="><a href="https://example.com/other">y</a>`),
		h("urls2", `<p><a href="http://example.com/">h</a></p><img src="data:image/svg+xml,%3Csvg%20xmlns='http://www.w3.org/2000/svg'%3E%3Cpath%20d='M 10 10 L 20 20'/%3E%3C/svg%3E"><a href="https://example.com/dir/a?b=c">z</a>`),
		// data: URIs whose media type carries several parameters; an SVG that names its default
		// style type; a script element that has both a src attribute and a body
		h("datauri-params", `<a href="data:text/x-note;charset=utf-8;format=flowed;delsp=yes,hello%20world">n</a><img src="data:image/svg+xml;charset=utf-8;a=b;c=d,%3Csvg%20xmlns='http://www.w3.org/2000/svg'%3E%3Cpath%20d='M 10 10 L 20 20'/%3E%3C/svg%3E"><p style=" background : url( 'data:text/plain;charset=us-ascii;x=1;y=2,abc' ) ">p</p>`),
		h("svg-contentstyletype", `<p>a</p><svg width="10" contentStyleType="text/xsl"><style> a { b : c } </style><path style=" fill : #ff0000 " d="M0 0"/></svg><svg width="10"><style> a { color : #ff0000 } </style></svg><p>b</p>`),
		h("script-src-body", `<p>a</p><script src="a.js"> var  lib_loaded = 1 + 1 ; </script><script async src="b.js" type="module"> import  x  from  "y" ; </script><style title="t" media="print"> a { b : c } </style>`),
		h("bad-js", `<DIV CLASS="A">  x  </DIV><script>var a = ;</script><p> tail </p>`),
		h("bad-css-in-svg", `<p>x</p><svg><style> a { b : ( } </style><path d="M0 0"/></svg>`),
		{MT: "application/javascript", Name: "builtin/bad1", Src: "builtin", Data: []byte("var x = ;")},
		{MT: "application/javascript", Name: "builtin/ok1", Src: "builtin", Data: []byte("function foo(alpha, beta){ let gamma = alpha + beta; return gamma * 2 }\nfoo(1,2);\n")},
		{MT: "application/json", Name: "builtin/bad1", Src: "builtin", Data: []byte(`{"a": [1, 2,, ]}`)},
		{MT: "text/xml", Name: "builtin/ok1", Src: "builtin", Data: []byte("<?xml version=\"1.0\"?>\n<a>\n  <b c = \"d\"> text </b>\n  <![CDATA[ x < y ]]>\n</a>")},
		{MT: "image/svg+xml", Name: "builtin/ok1", Src: "builtin", Data: []byte(`<svg xmlns="http://www.w3.org/2000/svg"><style> path { fill : #ff0000 } </style><path style=" stroke : #000000 " d="M 10.00 10.00 L 20.50 20.50 Z"/></svg>`)},
		{MT: "image/svg+xml", Name: "builtin/contentstyletype-xsl", Src: "builtin", Data: []byte(`<svg xmlns="http://www.w3.org/2000/svg" contentStyleType="text/xsl"><style> path { fill : #ff0000 } </style><path style=" stroke : #000000 " d="M 1 1 L 2 2"/></svg>`)},
		{MT: "image/svg+xml", Name: "builtin/contentstyletype-css", Src: "builtin", Data: []byte(`<svg xmlns="http://www.w3.org/2000/svg" contentStyleType="text/css" contentScriptType="application/ecmascript"><style> path { fill : #ff0000 } </style><path style=" stroke : #000000 " d="M 1 1 L 2 2"/></svg>`)},
		{MT: "text/css", Name: "builtin/datauri-params", Src: "builtin", Data: []byte(`a { background : url("data:image/svg+xml;charset=utf8;x=1;y=2;z=3,%3Csvg xmlns='http://www.w3.org/2000/svg'%3E%3C/svg%3E") } b { src : url(data:font/woff2;charset=binary;v=2;w=3;base64,AAEC) }`)},
		// every named character reference of HTML 4 (plus a few of HTML 5), in text, in quoted
		// and unquoted attribute values, and without the semicolon: the tree's own corpora use
		// three dozen of them
		{MT: "text/html", Name: "builtin/html4-entities-text", Src: "builtin", Data: entityDoc(0)},
		{MT: "text/html", Name: "builtin/html4-entities-attr", Src: "builtin", Data: entityDoc(1)},
		{MT: "text/html", Name: "builtin/html4-entities-unquoted-nosemicolon", Src: "builtin", Data: entityDoc(2)},
		// long runs of tokens that the minifier drops (each one a zero-length write on its way out)
		{MT: "text/html", Name: "builtin/150-comments", Src: "builtin", Data: []byte("<p>a</p>\n" + strings.Repeat("<!-- c -->\n", 150) + "<p>b</p>")},
		{MT: "text/xml", Name: "builtin/150-comments", Src: "builtin", Data: []byte("<r>a\n" + strings.Repeat("<!-- c -->\n", 150) + "<b/></r>")},
		{MT: "image/svg+xml", Name: "builtin/150-comments", Src: "builtin", Data: []byte("<svg xmlns=\"http://www.w3.org/2000/svg\">\n" + strings.Repeat("<!-- c -->\n", 150) + "<path d=\"M0 0\"/></svg>")},
		{MT: "text/css", Name: "builtin/datauri", Src: "builtin", Data: []byte(`a { background : url("data:image/svg+xml;base64,PHN2ZyB4bWxucz0iaHR0cDovL3d3dy53My5vcmcvMjAwMC9zdmciPjxwYXRoIGQ9Ik0gMTAgMTAgTCAyMCAyMCIvPjwvc3ZnPg==") ; color : #ffffff }`)},
	}
}

// Save / Load the index used by the test binaries.
func Save(path string, docs []Doc) error {
	b, err := json.Marshal(docs)
	if err != nil {
		return err
	}
	return os.WriteFile(path, b, 0o644)
}

func Load(path string) ([]Doc, error) {
	b, err := os.ReadFile(path)
	if err != nil {
		return nil, err
	}
	var docs []Doc
	err = json.Unmarshal(b, &docs)
	return docs, err
}

// Short returns a printable abbreviation of a document for evidence samples.
func Short(b []byte, n int) string {
	s := string(b)
	if len(s) > n {
		s = s[:n] + "…(" + strconv.Itoa(len(b)) + " bytes)"
	}
	return strings.ToValidUTF8(s, "?")
}

const html4Entities = "nbsp iexcl cent pound curren yen brvbar sect uml copy ordf laquo not shy reg macr deg plusmn sup2 sup3 acute micro para middot cedil sup1 ordm raquo frac14 frac12 frac34 iquest " +
	"Agrave Aacute Acirc Atilde Auml Aring AElig Ccedil Egrave Eacute Ecirc Euml Igrave Iacute Icirc Iuml ETH Ntilde Ograve Oacute Ocirc Otilde Ouml times Oslash Ugrave Uacute Ucirc Uuml Yacute THORN szlig " +
	"agrave aacute acirc atilde auml aring aelig ccedil egrave eacute ecirc euml igrave iacute icirc iuml eth ntilde ograve oacute ocirc otilde ouml divide oslash ugrave uacute ucirc uuml yacute thorn yuml " +
	"fnof Alpha Beta Gamma Delta Epsilon Zeta Eta Theta Iota Kappa Lambda Mu Nu Xi Omicron Pi Rho Sigma Tau Upsilon Phi Chi Psi Omega " +
	"alpha beta gamma delta epsilon zeta eta theta iota kappa lambda mu nu xi omicron pi rho sigmaf sigma tau upsilon phi chi psi omega thetasym upsih piv " +
	"bull hellip prime Prime oline frasl weierp image real trade alefsym larr uarr rarr darr harr crarr lArr uArr rArr dArr hArr " +
	"forall part exist empty nabla isin notin ni prod sum minus lowast radic prop infin ang and or cap cup int there4 sim cong asymp ne equiv le ge sub sup nsub sube supe oplus otimes perp sdot " +
	"lceil rceil lfloor rfloor lang rang loz spades clubs hearts diams " +
	"quot amp lt gt apos OElig oelig Scaron scaron Yuml circ tilde ensp emsp thinsp zwnj zwj lrm rlm ndash mdash lsquo rsquo sbquo ldquo rdquo bdquo dagger Dagger permil lsaquo rsaquo euro " +
	"plus colon comma period excl num dollar percnt lpar rpar ast sol semi equals quest commat lsqb rsqb bsol lowbar grave lcub rcub verbar vert Tab NewLine check cross star phone female male hyphen dash nbsp"

func entityDoc(kind int) []byte {
	var b strings.Builder
	b.WriteString("<!DOCTYPE html>\n<title>e</title>\n")
	for _, n := range strings.Fields(html4Entities) {
		switch kind {
		case 0:
			b.WriteString("<p>&" + n + "; x &" + n + ";</p>\n")
		case 1:
			b.WriteString("<a title=\"&" + n + ";\" alt='a&" + n + ";b'>x</a>\n")
		default:
			b.WriteString("<a title=&" + n + "; alt=a&" + n + ">&" + n + " y</a>\n")
		}
	}
	return []byte(b.String())
}
