//go:build verif

// Package veriffilepath is mapped into the module under test by a build overlay
// (/repo/veriffilepath, never on disk there). The command's import of "path/filepath" is
// rerouted here for simulation builds only, so that the functions of that package which
// reach the file system do not go around the os facade: EvalSymlinks is one intercepted,
// traced operation (a yield point of the scheduler, a place for an injected error); Walk,
// WalkDir and Glob read directories only and are forwarded as they are (the os calls of
// their callbacks are intercepted one by one as usual). Everything else is pure string
// manipulation and re-exported unchanged.
package veriffilepath

import (
	"io/fs"
	"path/filepath"

	"github.com/tdewolff/minify/v2/verifos"
)

const (
	Separator     = filepath.Separator
	ListSeparator = filepath.ListSeparator
)

var (
	ErrBadPattern = filepath.ErrBadPattern
	SkipDir       = filepath.SkipDir
	SkipAll       = filepath.SkipAll
)

type WalkFunc = filepath.WalkFunc

func Abs(path string) (string, error)               { return filepath.Abs(path) }
func Base(path string) string                       { return filepath.Base(path) }
func Clean(path string) string                      { return filepath.Clean(path) }
func Dir(path string) string                        { return filepath.Dir(path) }
func Ext(path string) string                        { return filepath.Ext(path) }
func FromSlash(path string) string                  { return filepath.FromSlash(path) }
func HasPrefix(p, prefix string) bool               { return filepath.HasPrefix(p, prefix) }
func IsAbs(path string) bool                        { return filepath.IsAbs(path) }
func IsLocal(path string) bool                      { return filepath.IsLocal(path) }
func Join(elem ...string) string                    { return filepath.Join(elem...) }
func Localize(path string) (string, error)          { return filepath.Localize(path) }
func Match(pattern, name string) (bool, error)      { return filepath.Match(pattern, name) }
func Rel(basepath, targpath string) (string, error) { return filepath.Rel(basepath, targpath) }
func Split(path string) (dir, file string)          { return filepath.Split(path) }
func SplitList(path string) []string                { return filepath.SplitList(path) }
func ToSlash(path string) string                    { return filepath.ToSlash(path) }
func VolumeName(path string) string                 { return filepath.VolumeName(path) }

func Glob(pattern string) ([]string, error)        { return filepath.Glob(pattern) }
func Walk(root string, fn WalkFunc) error          { return filepath.Walk(root, fn) }
func WalkDir(root string, fn fs.WalkDirFunc) error { return filepath.WalkDir(root, fn) }

// EvalSymlinks resolves links on the real disk, as one intercepted operation.
func EvalSymlinks(path string) (string, error) {
	var res string
	err := verifos.ReadOnlyOp("evalsymlinks", path, func() error {
		var e error
		res, e = filepath.EvalSymlinks(path)
		return e
	})
	return res, err
}
