// Package verifcost is the simulated clock of C10: counters that the overlay-instrumented
// minifier packages bump at every function entry and every loop iteration (one counter per
// function). It is mapped into the module under test by the build overlay; without the
// instrumentation (every build except C10's) the counters simply stay at zero.
package verifcost

// C is indexed by function id (see Names). Plain, non-atomic increments: C10's cases run
// one call at a time.
var C [16384]int64

// Names[id] is "package.function" of counter id; filled by the generated file when the
// instrumentation is on.
var Names []string

// Total is the simulated time: the sum of all counters.
func Total() int64 {
	var t int64
	for i := range Names {
		t += C[i]
	}
	return t
}

// Snapshot copies the live counters.
func Snapshot(dst []int64) []int64 {
	return append(dst[:0], C[:len(Names)]...)
}

// On reports whether this build is instrumented.
func On() bool { return len(Names) > 0 }

// Bulk is the charge for one copy / append of min(a, b) elements: one tick per 8.
func Bulk(a, b int) int64 {
	if b < a {
		a = b
	}
	return int64(a >> 3)
}
