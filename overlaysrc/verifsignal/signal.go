//go:build verif

// Package verifsignal is mapped into the module under test by the build overlay; cmd/minify's
// import of "os/signal" is rerouted here for simulation builds. In a simulated run a
// handler registration is recorded by the os facade instead of reaching the runtime (the
// runtime's delivery goroutine lives outside the simulation), and the plan can deliver a
// catchable termination signal right before any file-system operation: with a handler the
// process goes on and runs it, without one it dies there, like for SIGKILL.
package verifsignal

import (
	"context"
	"os"
	"os/signal"

	"github.com/tdewolff/minify/v2/verifos"
)

func Notify(c chan<- os.Signal, sig ...os.Signal) {
	if verifos.Simulating() {
		verifos.RegisterSignal(c, sig)
		return
	}
	signal.Notify(c, sig...)
}

func Stop(c chan<- os.Signal) {
	if verifos.Simulating() {
		verifos.UnregisterSignal(c)
		return
	}
	signal.Stop(c)
}

func Ignore(sig ...os.Signal) {
	if verifos.Simulating() {
		verifos.IgnoreSignal(sig)
		return
	}
	signal.Ignore(sig...)
}

func Ignored(sig os.Signal) bool { return signal.Ignored(sig) }

func Reset(sig ...os.Signal) {
	if verifos.Simulating() {
		return
	}
	signal.Reset(sig...)
}

// NotifyContext: the returned context is cancelled when the simulated signal is delivered.
func NotifyContext(parent context.Context, sig ...os.Signal) (context.Context, context.CancelFunc) {
	if !verifos.Simulating() {
		return signal.NotifyContext(parent, sig...)
	}
	ctx, cancel := context.WithCancel(parent)
	c := make(chan os.Signal, 1)
	verifos.RegisterSignal(c, sig)
	go func() {
		select {
		case <-c:
			cancel()
		case <-ctx.Done():
		}
	}()
	return ctx, func() { verifos.UnregisterSignal(c); cancel() }
}
