//go:build verif

package verifos

import (
	"encoding/json"
	"fmt"
	"os"
	"regexp"
	"runtime"
	"sort"
	"strconv"
	"strings"
	"sync"
	"syscall"
	"testing/synctest"
	"time"
)

// Inject makes the occurrences [Nth, Nth+Times) of an operation fail (Times<0: forever).
type Inject struct {
	Kind   string `json:"kind"`
	PathRe string `json:"path_re"`
	Nth    int    `json:"nth"`
	Times  int    `json:"times"`
	Errno  int    `json:"errno"`
	Short  bool   `json:"short"` // write: accept half of the buffer before failing
	re     *regexp.Regexp
	seen   int
}

// Plan is everything the parent decides for one simulated run of the CLI.
type Plan struct {
	Args    []string `json:"args"`
	Dir     string   `json:"dir"`
	Stdin   string   `json:"stdin"`
	Stdout  string   `json:"stdout"`
	Stderr  string   `json:"stderr"`
	Tape    []uint64 `json:"tape"`
	Stick   int      `json:"stick"`
	CrashAt int      `json:"crash_at"` // SIGKILL just before the operation with this sequence number (-1: never)
	TornAt  int      `json:"torn_at"`  // the write with this sequence number writes TornN bytes and dies (-1: never)
	// SoftKillAt: a catchable termination signal (SIGTERM) arrives just before the operation
	// with this sequence number (-1 or 0 with SoftKill false: never). With a registered
	// handler the process continues and runs it; without one it dies there.
	SoftKill   bool      `json:"soft_kill"`
	SoftKillAt int       `json:"soft_kill_at"`
	TornN      int       `json:"torn_n"`
	Inject     []*Inject `json:"inject"`
	TracePath  string    `json:"trace"`
	ResultPath string    `json:"result"`
	MaxOps     int       `json:"max_ops"`
	// Chunks: buffer sizes handed out (cyclically) to io.ReadAll / io.Copy of the command
	// through the verifio facade; empty = the standard library's own behaviour.
	Chunks []int `json:"chunks"`
	// Chroot: the scenario root becomes the root of the file system of this process (the
	// control files are opened first), so that "/src" and "/a.css" are inputs directly below
	// "/" and the working directory is "/" - the layout of a container image
	Chroot bool `json:"chroot"`
}

// OpRec is one intercepted operation.
type OpRec struct {
	Seq   int
	Kind  string
	Path  string
	Path2 string
	Flag  int
	N     int
	torn  int
	short bool
	key   []string
	gs    *gstate
	grant bool
	inj   error
}

type gstate struct{ hist []string }

// Result is written by the child for the parent.
type Result struct {
	Exit      int            `json:"exit"`
	Ops       int            `json:"ops"`
	TapeUsed  int            `json:"tape_used"`
	Deadlock  bool           `json:"deadlock"`
	Steps     int            `json:"steps"`
	Preempts  int            `json:"preempts"`
	MaxParked int            `json:"max_parked"`
	Fired     map[string]int `json:"fired"`
	SchedHash uint64         `json:"sched_hash"`
	Note      string         `json:"note"`
	NumCPU    int            `json:"num_cpu"`
}

var (
	simOn   bool
	plan    *Plan
	mu      sync.Mutex
	parked  []*OpRec
	gstates = map[int64]*gstate{}
	seq     int
	trace   *os.File
	resultF *os.File
	tapePos int
	res     = Result{Fired: map[string]int{}, SchedHash: 14695981039346656037}
	lastG   *gstate
)

// Start arms the simulator with a plan. Called by the injected driver before run().
func Start(p *Plan) error {
	plan = p
	for _, in := range p.Inject {
		re, err := regexp.Compile(in.PathRe)
		if err != nil {
			return err
		}
		in.re = re
	}
	if p.TracePath != "" {
		f, err := os.OpenFile(p.TracePath, os.O_CREATE|os.O_WRONLY|os.O_APPEND, 0o644)
		if err != nil {
			return err
		}
		trace = f
	}
	if p.MaxOps == 0 {
		p.MaxOps = 400000
	}
	if p.Chroot {
		if p.ResultPath != "" {
			f, err := os.OpenFile(p.ResultPath, os.O_CREATE|os.O_WRONLY|os.O_TRUNC, 0o644)
			if err != nil {
				return err
			}
			resultF = f
		}
		if err := syscall.Chroot(p.Dir); err != nil {
			return fmt.Errorf("chroot %s: %v", p.Dir, err)
		}
		if err := os.Chdir("/"); err != nil {
			return err
		}
		p.Dir = "/" // what recorded paths are made relative to
	}
	simOn = true
	return nil
}

func goid() int64 {
	var buf [64]byte
	n := runtime.Stack(buf[:], false)
	s := strings.TrimPrefix(string(buf[:n]), "goroutine ")
	if i := strings.IndexByte(s, ' '); i > 0 {
		id, _ := strconv.ParseInt(s[:i], 10, 64)
		return id
	}
	return 0
}

func opString(kind, p1, p2 string, flag int) string {
	s := kind + " " + p1
	if p2 != "" {
		s += " -> " + p2
	}
	return s
}

func tline(format string, a ...any) {
	if trace != nil {
		trace.WriteString(fmt.Sprintf(format, a...) + "\n")
	}
}

func die(why string) {
	tline("KILL %s", why)
	syscall.Kill(syscall.Getpid(), syscall.SIGKILL)
	select {}
}

func exitHook(code int) {
	if simOn {
		tline("EXIT %d", code)
	}
}

// before parks the calling goroutine until the scheduler grants the operation, then
// applies the plan's crash / injection for it.
func before(kind, p1, p2 string, flag int) (*OpRec, error) {
	if !simOn {
		return nil, nil
	}
	id := goid()
	mu.Lock()
	gs := gstates[id]
	if gs == nil {
		gs = &gstate{}
		gstates[id] = gs
	}
	op := &OpRec{Kind: kind, Path: p1, Path2: p2, Flag: flag, torn: -1, gs: gs}
	// canonical key: the operation itself, then this goroutine's history backwards
	op.key = append(op.key, opString(kind, p1, p2, flag))
	for i := len(gs.hist) - 1; i >= 0 && len(op.key) < 12; i-- {
		op.key = append(op.key, gs.hist[i])
	}
	parked = append(parked, op)
	mu.Unlock()
	for {
		mu.Lock()
		g := op.grant
		mu.Unlock()
		if g {
			break
		}
		time.Sleep(1)
	}
	// our turn
	tline("%d intent %s flag=%d", op.Seq, op.key[0], flag)
	if plan.CrashAt == op.Seq {
		die("before op " + strconv.Itoa(op.Seq))
	}
	if plan.SoftKill && plan.SoftKillAt == op.Seq {
		if !deliverTerm() {
			die("SIGTERM without a handler before op " + strconv.Itoa(op.Seq))
		}
	}
	if plan.TornAt == op.Seq && kind == "write" {
		op.torn = plan.TornN
	}
	for _, in := range plan.Inject {
		if in.Kind != kind || !in.re.MatchString(p1) {
			continue
		}
		n := in.seen
		in.seen++
		if n >= in.Nth && (in.Times < 0 || n < in.Nth+in.Times) {
			op.short = in.Short
			res.Fired[in.Kind+":"+syscall.Errno(in.Errno).Error()]++
			err := &os.PathError{Op: kind, Path: p1, Err: syscall.Errno(in.Errno)}
			return op, err
		}
	}
	return op, nil
}

func after(op *OpRec, err error) {
	if op == nil {
		return
	}
	r := "ok"
	if err != nil {
		r = "err=" + err.Error()
	}
	tline("%d done %s n=%d %s", op.Seq, op.key[0], op.N, r)
	mu.Lock()
	op.gs.hist = append(op.gs.hist, op.key[0])
	if len(op.gs.hist) > 64 {
		op.gs.hist = op.gs.hist[len(op.gs.hist)-32:]
	}
	mu.Unlock()
}

func draw(n int) int {
	if n <= 1 {
		return 0
	}
	v := uint64(0)
	if tapePos < len(plan.Tape) {
		v = plan.Tape[tapePos]
	}
	tapePos++
	return int(v % uint64(n))
}

func less(a, b []string) bool {
	for i := 0; i < len(a) && i < len(b); i++ {
		if a[i] != b[i] {
			return a[i] < b[i]
		}
	}
	return len(a) < len(b)
}

// Schedule is the scheduler loop; it runs on its own goroutine inside the bubble until
// *done is set by the driver after run() has returned. It reports a deadlock (quiescence,
// nothing parked, run() not finished).
func Schedule(done *bool) {
	for {
		synctest.Wait()
		mu.Lock()
		if *done {
			mu.Unlock()
			return
		}
		if len(parked) == 0 {
			mu.Unlock()
			res.Deadlock = true
			tline("DEADLOCK")
			WriteResult(-3)
			os.Exit(97)
		}
		sort.SliceStable(parked, func(i, j int) bool { return less(parked[i].key, parked[j].key) })
		if len(parked) > res.MaxParked {
			res.MaxParked = len(parked)
		}
		// previous goroutine first (0 = keep going)
		li := -1
		for i, p := range parked {
			if p.gs == lastG {
				li = i
				break
			}
		}
		if li > 0 {
			p := parked[li]
			copy(parked[1:li+1], parked[:li])
			parked[0] = p
		}
		i := 0
		if len(parked) > 1 {
			if plan.Stick > 0 && li >= 0 && draw(plan.Stick+1) != plan.Stick {
				i = 0
			} else {
				i = draw(len(parked))
			}
			if li >= 0 && i != 0 {
				res.Preempts++
			}
		}
		op := parked[i]
		parked = append(parked[:i], parked[i+1:]...)
		op.Seq = seq
		seq++
		res.Steps++
		for _, c := range op.key[0] {
			res.SchedHash = (res.SchedHash ^ uint64(c)) * 1099511628211
		}
		lastG = op.gs
		op.grant = true
		if seq > plan.MaxOps {
			mu.Unlock()
			res.Note = "operation budget exhausted"
			WriteResult(-4)
			os.Exit(98)
		}
		mu.Unlock()
		time.Sleep(1)
	}
}

// WriteResult records the outcome for the parent.
func WriteResult(exit int) {
	res.Exit = exit
	res.Ops = seq
	res.TapeUsed = tapePos
	res.NumCPU = runtime.NumCPU()
	if plan == nil || plan.ResultPath == "" {
		return
	}
	b, _ := json.Marshal(&res)
	if resultF != nil {
		resultF.Truncate(0)
		resultF.WriteAt(b, 0)
		return
	}
	os.WriteFile(plan.ResultPath, b, 0o644)
}

// Finish tells the scheduler that run() has returned.
func Finish(done *bool) {
	mu.Lock()
	*done = true
	simOn = false
	mu.Unlock()
}

var chunkPos int

// ChunkKnob reports whether the plan chooses the buffer sizes of io.ReadAll / io.Copy.
func ChunkKnob() bool { return plan != nil && len(plan.Chunks) > 0 }

// NextChunk returns the next buffer size of the plan. Each goroutine of the command walks
// the same cyclic list from a position that depends only on how many buffers the whole run
// has asked for so far, which the seeded schedule makes deterministic.
func NextChunk() int {
	mu.Lock()
	defer mu.Unlock()
	n := plan.Chunks[chunkPos%len(plan.Chunks)]
	chunkPos++
	if n < 1 {
		n = 1
	}
	return n
}

// --- catchable signals (seam used by the verifsignal facade) ------------------------------

type sigReg struct {
	c    chan<- os.Signal
	sigs []os.Signal
}

var (
	sigMu      sync.Mutex
	sigRegs    []sigReg
	sigIgnored bool
)

// Simulating reports whether a plan drives this process.
func Simulating() bool { return simOn }

func RegisterSignal(c chan<- os.Signal, sigs []os.Signal) {
	sigMu.Lock()
	sigRegs = append(sigRegs, sigReg{c, sigs})
	sigMu.Unlock()
	tline("SIGNOTIFY %d handler(s)", len(sigRegs))
	res.Fired["signal-handler-registered"]++
}

func UnregisterSignal(c chan<- os.Signal) {
	sigMu.Lock()
	for i := 0; i < len(sigRegs); i++ {
		if sigRegs[i].c == c {
			sigRegs = append(sigRegs[:i], sigRegs[i+1:]...)
			i--
		}
	}
	sigMu.Unlock()
}

func IgnoreSignal(sigs []os.Signal) {
	for _, s := range sigs {
		if s == syscall.SIGTERM {
			sigIgnored = true
		}
	}
}

// deliverTerm hands SIGTERM to every channel registered for it (or for all signals), without
// blocking, like the runtime does. false: nobody handles it, the default action applies.
func deliverTerm() bool {
	sigMu.Lock()
	defer sigMu.Unlock()
	if sigIgnored {
		tline("SIGTERM ignored")
		return true
	}
	n := 0
	for _, r := range sigRegs {
		match := len(r.sigs) == 0
		for _, s := range r.sigs {
			if s == syscall.SIGTERM {
				match = true
			}
		}
		if match {
			select {
			case r.c <- syscall.SIGTERM:
			default:
			}
			n++
		}
	}
	tline("SIGTERM delivered to %d handler(s)", n)
	return n > 0
}
