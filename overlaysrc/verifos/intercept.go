//go:build verif

// Package verifos is mapped into the module under test by a build overlay
// (/repo/verifos, never on disk there); cmd/minify's import of "os" is rerouted here for
// simulation builds only. Every call that touches the file system forwards to the real
// package os — the disk is the real kernel file system — but first becomes a yield point
// of the seeded scheduler, an entry of the operation trace, and a place where the plan can
// inject an errno, a torn write or a SIGKILL.
package verifos

import (
	"errors"
	"io"
	"io/fs"
	"os"
	"path/filepath"
	"strconv"
	"strings"
	"sync"
	"time"
)

// File wraps *os.File. It deliberately has no ReadFrom/WriteTo, so io.Copy goes through
// Read and Write and every transfer is visible to the simulator.
type File struct {
	f    *os.File
	name string
	std  int // 1 stdin, 2 stdout, 3 stderr
}

func wrap(f *os.File) *File {
	if f == nil {
		return nil
	}
	return &File{f: f, name: f.Name()}
}

func unwrap(f *File) *os.File {
	if f == nil {
		return nil
	}
	return f.f
}

var (
	Stdin  = &File{f: os.Stdin, name: "<stdin>", std: 1}
	Stdout = &File{f: os.Stdout, name: "<stdout>", std: 2}
	Stderr = &File{f: os.Stderr, name: "<stderr>", std: 3}
	Args   = os.Args
)

// Rebind points the standard streams at other files (the driver redirects them).
func Rebind(stdin, stdout, stderr *os.File) {
	if stdin != nil {
		Stdin.f = stdin
	}
	if stdout != nil {
		Stdout.f = stdout
	}
	if stderr != nil {
		Stderr.f = stderr
	}
	Args = os.Args
}

func NewFile(fd uintptr, name string) *File { return wrap(os.NewFile(fd, name)) }

func Exit(code int) {
	exitHook(code)
	os.Exit(code)
}

func (f *File) Name() string { return f.name }

func (f *File) Read(b []byte) (int, error) {
	op, err := before("read", f.name, "", len(b))
	if err != nil {
		after(op, err)
		return 0, err
	}
	n, err := f.f.Read(b)
	if op != nil {
		op.N = n
	}
	after(op, err)
	return n, err
}

func (f *File) Write(b []byte) (int, error) {
	if f.std == 3 {
		return f.f.Write(b) // diagnostics are not part of any property: no yield, no fault
	}
	op, err := before("write", f.name, "", len(b))
	if op != nil && op.torn >= 0 {
		n := op.torn
		if n > len(b) {
			n = len(b)
		}
		f.f.Write(b[:n])
		die("torn write")
	}
	if err != nil {
		n := 0
		if op != nil && op.short && len(b) > 1 {
			n, _ = f.f.Write(b[:len(b)/2])
		}
		after(op, err)
		return n, err
	}
	n, err := f.f.Write(b)
	if op != nil {
		op.N = n
	}
	after(op, err)
	return n, err
}

func (f *File) WriteString(s string) (int, error) { return f.Write([]byte(s)) }

func (f *File) Close() error {
	op, err := before("close", f.name, "", 0)
	if err != nil {
		f.f.Close() // the descriptor is gone even when close reports an error
		after(op, err)
		return err
	}
	err = f.f.Close()
	after(op, err)
	return err
}

func (f *File) Stat() (FileInfo, error) { return f.f.Stat() }

func (f *File) Readdir(n int) ([]FileInfo, error) { return f.f.Readdir(n) }

func (f *File) Chmod(mode FileMode) error {
	op, err := before("fchmod", f.name, "", int(mode))
	if err != nil {
		after(op, err)
		return err
	}
	err = f.f.Chmod(mode)
	after(op, err)
	return err
}

var _ fs.File = (*File)(nil)
var _ fs.ReadDirFile = (*File)(nil)
var _ io.ReadWriteCloser = (*File)(nil)

func open1(kind, name string, flag int, perm FileMode) (*File, error) {
	op, err := before(kind, name, "", flag)
	if err != nil {
		after(op, err)
		return nil, err
	}
	f, err := os.OpenFile(name, flag, perm)
	after(op, err)
	if err != nil {
		return nil, err
	}
	return &File{f: f, name: name}, nil
}

func Open(name string) (*File, error) { return open1("open", name, os.O_RDONLY, 0) }

func OpenFile(name string, flag int, perm FileMode) (*File, error) {
	kind := "open"
	if flag&(os.O_WRONLY|os.O_RDWR) != 0 {
		kind = "openw"
		if flag&os.O_TRUNC != 0 {
			kind = "opentrunc"
		}
	}
	return open1(kind, name, flag, perm)
}

func Create(name string) (*File, error) {
	return open1("opentrunc", name, os.O_RDWR|os.O_CREATE|os.O_TRUNC, 0666)
}

func ReadFile(name string) ([]byte, error) {
	f, err := Open(name)
	if err != nil {
		return nil, err
	}
	defer f.Close()
	return io.ReadAll(f)
}

func WriteFile(name string, data []byte, perm FileMode) error {
	f, err := OpenFile(name, os.O_WRONLY|os.O_CREATE|os.O_TRUNC, perm)
	if err != nil {
		return err
	}
	_, err = f.Write(data)
	if err1 := f.Close(); err1 != nil && err == nil {
		err = err1
	}
	return err
}

func simple(kind, p1, p2 string, flag int, do func() error) error {
	op, err := before(kind, p1, p2, flag)
	if err != nil {
		after(op, err)
		return err
	}
	err = do()
	after(op, err)
	return err
}

// ReadOnlyOp lets another facade of the same build (path/filepath) put an operation that only
// reads the disk through the same interception as the os calls: traced, a yield point, a
// place where an error can be injected.
func ReadOnlyOp(kind, path string, do func() error) error { return simple(kind, path, "", 0, do) }

func Remove(name string) error {
	return simple("remove", name, "", 0, func() error { return os.Remove(name) })
}
func RemoveAll(path string) error {
	return simple("removeall", path, "", 0, func() error { return os.RemoveAll(path) })
}
func Rename(oldpath, newpath string) error {
	return simple("rename", oldpath, newpath, 0, func() error { return os.Rename(oldpath, newpath) })
}
func Mkdir(name string, perm FileMode) error {
	return simple("mkdir", name, "", int(perm), func() error { return os.Mkdir(name, perm) })
}
func MkdirAll(path string, perm FileMode) error {
	return simple("mkdirall", path, "", int(perm), func() error { return os.MkdirAll(path, perm) })
}
func Symlink(oldname, newname string) error {
	return simple("symlink", oldname, newname, 0, func() error { return os.Symlink(oldname, newname) })
}
func Link(oldname, newname string) error {
	return simple("link", oldname, newname, 0, func() error { return os.Link(oldname, newname) })
}
func Chmod(name string, mode FileMode) error {
	return simple("chmod", name, "", int(mode), func() error { return os.Chmod(name, mode) })
}
func Chown(name string, uid, gid int) error {
	return simple("chown", name, "", 0, func() error { return os.Chown(name, uid, gid) })
}
func Lchown(name string, uid, gid int) error {
	return simple("lchown", name, "", 0, func() error { return os.Lchown(name, uid, gid) })
}
func Chtimes(name string, atime, mtime time.Time) error {
	return simple("chtimes", name, "", 0, func() error { return os.Chtimes(name, atime, mtime) })
}
func Truncate(name string, size int64) error {
	return simple("truncate", name, "", int(size), func() error { return os.Truncate(name, size) })
}

func Readlink(name string) (string, error) {
	var s string
	err := simple("readlink", name, "", 0, func() (e error) { s, e = os.Readlink(name); return })
	return s, err
}

func Stat(name string) (FileInfo, error) {
	var fi FileInfo
	err := simple("stat", name, "", 0, func() (e error) { fi, e = os.Stat(name); return })
	return fi, err
}

func Lstat(name string) (FileInfo, error) {
	var fi FileInfo
	err := simple("lstat", name, "", 0, func() (e error) { fi, e = os.Lstat(name); return })
	return fi, err
}

func ReadDir(name string) ([]DirEntry, error) {
	var d []DirEntry
	err := simple("readdir", name, "", 0, func() (e error) { d, e = os.ReadDir(name); return })
	return d, err
}

// Temporary names and the process id are sources of nondeterminism of their own (os.CreateTemp
// draws from a random generator): in a simulated run the "random" part of a temporary name is
// a counter per (directory, pattern) that advances in scheduler order, and the pid is fixed,
// so that a crash run names its files exactly like the fault-free run it repeats.
var (
	tempMu  sync.Mutex
	tempSeq = map[string]int{}
)

func tempName(dir, pattern string) (string, error) {
	if dir == "" {
		dir = os.TempDir()
	}
	for i := 0; i < len(pattern); i++ {
		if os.IsPathSeparator(pattern[i]) {
			return "", &os.PathError{Op: "createtemp", Path: pattern, Err: errors.New("pattern contains path separator")}
		}
	}
	prefix, suffix := pattern, ""
	if i := strings.LastIndexByte(pattern, '*'); i >= 0 {
		prefix, suffix = pattern[:i], pattern[i+1:]
	}
	// the counter advances while this goroutine holds the scheduler's grant
	op, err := before("mktemp", filepath.Join(dir, pattern), "", 0)
	if err != nil {
		after(op, err)
		return "", err
	}
	tempMu.Lock()
	n := tempSeq[dir+"\x00"+pattern]
	tempSeq[dir+"\x00"+pattern] = n + 1
	tempMu.Unlock()
	after(op, nil)
	return filepath.Join(dir, prefix+strconv.Itoa(1000000007+n*7919)+suffix), nil
}

func CreateTemp(dir, pattern string) (*File, error) {
	if !simOn {
		f, err := os.CreateTemp(dir, pattern)
		if err != nil {
			return nil, err
		}
		return wrap(f), nil
	}
	for try := 0; try < 10000; try++ {
		name, err := tempName(dir, pattern)
		if err != nil {
			return nil, err
		}
		f, err := OpenFile(name, os.O_RDWR|os.O_CREATE|os.O_EXCL, 0600)
		if os.IsExist(err) {
			continue
		}
		return f, err
	}
	return nil, &os.PathError{Op: "createtemp", Path: filepath.Join(dir, pattern), Err: os.ErrExist}
}

func MkdirTemp(dir, pattern string) (string, error) {
	if !simOn {
		return os.MkdirTemp(dir, pattern)
	}
	for try := 0; try < 10000; try++ {
		name, err := tempName(dir, pattern)
		if err != nil {
			return "", err
		}
		err = Mkdir(name, 0700)
		if os.IsExist(err) {
			continue
		}
		return name, err
	}
	return "", &os.PathError{Op: "mkdirtemp", Path: filepath.Join(dir, pattern), Err: os.ErrExist}
}

// Getpid is constant in a simulated run.
func Getpid() int {
	if simOn {
		return 4242
	}
	return os.Getpid()
}
