//go:build verif

// Package verifsync is mapped into the module under test by a build overlay
// (/repo/verifsync, never on disk there). minify.go's import of "sync" is rerouted here
// for simulation builds only. Mutexes keep their real implementation but never block a
// goroutine inside the runtime: a failed Try is reported to the simulator ("would-block")
// and then polled on the (fake) clock, so that the simulator can tell a call that waits on
// another call from a deadlock, and synctest quiescence detection keeps working.
// Everything else in package sync is re-exported unchanged.
package verifsync

import (
	"sync"
	"sync/atomic"
	"time"
)

type (
	WaitGroup = sync.WaitGroup
	Once      = sync.Once
	Cond      = sync.Cond
	Locker    = sync.Locker
	Map       = sync.Map
	Pool      = sync.Pool
)

func NewCond(l Locker) *Cond { return sync.NewCond(l) }

func OnceFunc(f func()) func() { return sync.OnceFunc(f) }

func OnceValue[T any](f func() T) func() T { return sync.OnceValue(f) }

func OnceValues[T1, T2 any](f func() (T1, T2)) func() (T1, T2) { return sync.OnceValues(f) }

// waiting counts the goroutines that are currently polling for a lock. The simulator reads
// it at quiescent points: a goroutine that is still waiting when every other goroutine is
// parked or blocked waits for a lock whose holder is parked inside I/O, i.e. one call is
// blocked on another call's progress. A short wait for a lock that guards a few
// instructions resolves before the next quiescent point and is not reported.
// (The counter is atomic: it orders only goroutines that contend for locks, which the lock
// orders anyway.)
var waiting int64

// Waiting returns the number of goroutines polling for a lock right now.
func Waiting() int64 { return atomic.LoadInt64(&waiting) }

func report(op string) {}

// aborted is set by the simulator when a run has been ended (violation found): a goroutine
// that is still polling for a lock then parks for good instead of spinning on the fake
// clock, so that the bubble can end.
var aborted int32

// SetAborted is called by the simulator at the start (false) and end (true) of a run.
func SetAborted(b bool) {
	if b {
		atomic.StoreInt32(&aborted, 1)
	} else {
		atomic.StoreInt32(&aborted, 0)
		atomic.StoreInt64(&waiting, 0)
	}
}

func wait(try func() bool) {
	atomic.AddInt64(&waiting, 1)
	start := time.Now()
	for !try() {
		if atomic.LoadInt32(&aborted) != 0 {
			select {} // never released: the run is over
		}
		// Outside a simulated run (sequential reference calls) nobody can release a lock
		// that this goroutine waits for: after a few real seconds this is a self-deadlock
		// (a nested call re-acquiring an exclusive lock). Inside a bubble the clock is fake
		// and advances a nanosecond per step, so this never fires there.
		if time.Since(start) > 3*time.Second {
			atomic.AddInt64(&waiting, -1)
			panic("verifsync: lock not acquired after 3s outside a simulated run (self-deadlock of nested calls?)")
		}
		time.Sleep(1)
	}
	atomic.AddInt64(&waiting, -1)
}

// RWMutex wraps a real sync.RWMutex.
type RWMutex struct{ mu sync.RWMutex }

func (m *RWMutex) RLock() {
	if m.mu.TryRLock() {
		return
	}
	report("RWMutex.RLock")
	wait(m.mu.TryRLock)
}

func (m *RWMutex) Lock() {
	if m.mu.TryLock() {
		return
	}
	report("RWMutex.Lock")
	wait(m.mu.TryLock)
}

func (m *RWMutex) RUnlock()        { m.mu.RUnlock() }
func (m *RWMutex) Unlock()         { m.mu.Unlock() }
func (m *RWMutex) TryLock() bool   { return m.mu.TryLock() }
func (m *RWMutex) TryRLock() bool  { return m.mu.TryRLock() }
func (m *RWMutex) RLocker() Locker { return (*rlocker)(m) }

type rlocker RWMutex

func (r *rlocker) Lock()   { (*RWMutex)(r).RLock() }
func (r *rlocker) Unlock() { (*RWMutex)(r).RUnlock() }

// Mutex wraps a real sync.Mutex.
type Mutex struct{ mu sync.Mutex }

func (m *Mutex) Lock() {
	if m.mu.TryLock() {
		return
	}
	report("Mutex.Lock")
	wait(m.mu.TryLock)
}

func (m *Mutex) Unlock()       { m.mu.Unlock() }
func (m *Mutex) TryLock() bool { return m.mu.TryLock() }
