//go:build verif

// Package verifsync is mapped into the module under test by a build overlay
// (/repo/verifsync, never on disk there). minify.go's import of "sync" is rerouted here
// for simulation builds only. Mutexes keep their real implementation but never block a
// goroutine inside the runtime: a failed Try is reported to the simulator ("would-block")
// and then polled on the (fake) clock, so that the simulator can tell a call that waits on
// another call from a deadlock, and synctest quiescence detection keeps working.
// Everything else in package sync is re-exported unchanged.
package verifsync

import (
	"sync"
	"time"
)

type (
	WaitGroup = sync.WaitGroup
	Once      = sync.Once
	Cond      = sync.Cond
	Locker    = sync.Locker
	Map       = sync.Map
	Pool      = sync.Pool
)

func NewCond(l Locker) *Cond { return sync.NewCond(l) }

func OnceFunc(f func()) func() { return sync.OnceFunc(f) }

func OnceValue[T any](f func() T) func() T { return sync.OnceValue(f) }

func OnceValues[T1, T2 any](f func() (T1, T2)) func() (T1, T2) { return sync.OnceValues(f) }

var sink func(op string)

// SetSink installs the simulator's observer of would-block events (nil to remove).
//
//go:norace
func SetSink(f func(op string)) { sink = f }

//go:norace
func report(op string) {
	if f := sink; f != nil {
		f(op)
	}
}

func wait(try func() bool) {
	for !try() {
		time.Sleep(1)
	}
}

// RWMutex wraps a real sync.RWMutex.
type RWMutex struct{ mu sync.RWMutex }

func (m *RWMutex) RLock() {
	if m.mu.TryRLock() {
		return
	}
	report("RWMutex.RLock")
	wait(m.mu.TryRLock)
}

func (m *RWMutex) Lock() {
	if m.mu.TryLock() {
		return
	}
	report("RWMutex.Lock")
	wait(m.mu.TryLock)
}

func (m *RWMutex) RUnlock()        { m.mu.RUnlock() }
func (m *RWMutex) Unlock()         { m.mu.Unlock() }
func (m *RWMutex) TryLock() bool   { return m.mu.TryLock() }
func (m *RWMutex) TryRLock() bool  { return m.mu.TryRLock() }
func (m *RWMutex) RLocker() Locker { return (*rlocker)(m) }

type rlocker RWMutex

func (r *rlocker) Lock()   { (*RWMutex)(r).RLock() }
func (r *rlocker) Unlock() { (*RWMutex)(r).RUnlock() }

// Mutex wraps a real sync.Mutex.
type Mutex struct{ mu sync.Mutex }

func (m *Mutex) Lock() {
	if m.mu.TryLock() {
		return
	}
	report("Mutex.Lock")
	wait(m.mu.TryLock)
}

func (m *Mutex) Unlock()       { m.mu.Unlock() }
func (m *Mutex) TryLock() bool { return m.mu.TryLock() }
