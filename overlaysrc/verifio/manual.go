//go:build verif

// Package verifio is mapped into the module under test by a build overlay; cmd/minify's
// import of "io" is rerouted here for simulation builds. Everything forwards to package io
// except ReadAll and Copy, whose buffer sizes — an unspecified tuning knob of the standard
// library that differs between Go releases — are chosen by the simulation plan, so that
// readers and writers of the command are exercised with reads and writes of any legal
// size (1 byte up), not only the one pattern of the toolchain at hand.
package verifio

import (
	"io"

	"github.com/tdewolff/minify/v2/verifos"
)

func ReadAll(r io.Reader) ([]byte, error) {
	if !verifos.ChunkKnob() {
		return io.ReadAll(r)
	}
	var out []byte
	for {
		buf := make([]byte, verifos.NextChunk())
		n, err := r.Read(buf)
		out = append(out, buf[:n]...)
		if err == io.EOF {
			return out, nil
		}
		if err != nil {
			return out, err
		}
	}
}

func Copy(dst io.Writer, src io.Reader) (int64, error) {
	if !verifos.ChunkKnob() {
		return io.Copy(dst, src)
	}
	return copyChunks(dst, src)
}

func CopyBuffer(dst io.Writer, src io.Reader, buf []byte) (int64, error) {
	if !verifos.ChunkKnob() {
		return io.CopyBuffer(dst, src, buf)
	}
	return copyChunks(dst, src)
}

func copyChunks(dst io.Writer, src io.Reader) (int64, error) {
	var written int64
	for {
		buf := make([]byte, verifos.NextChunk())
		n, err := src.Read(buf)
		if n > 0 {
			m, werr := dst.Write(buf[:n])
			written += int64(m)
			if werr != nil {
				return written, werr
			}
			if m != n {
				return written, io.ErrShortWrite
			}
		}
		if err == io.EOF {
			return written, nil
		}
		if err != nil {
			return written, err
		}
	}
}
