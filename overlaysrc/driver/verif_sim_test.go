//go:build verif

//go:debug asynctimerchan=0

package main

// Injected into package main of cmd/minify by the simulation build overlay (never on disk
// in /repo). It runs the real run() once, inside a synctest bubble, under the plan given
// by the parent process: working directory, arguments, schedule tape, crash point,
// injected errors. One OS process per simulated run.

import (
	"encoding/json"
	"os"
	"testing"
	"testing/synctest"

	"github.com/tdewolff/minify/v2/verifos"
)

func TestVerifSim(t *testing.T) {
	pp := os.Getenv("VERIF_PLAN")
	if pp == "" {
		t.Skip("VERIF_PLAN not set: this test is the child of /verif/verif")
	}
	b, err := os.ReadFile(pp)
	if err != nil {
		os.Stderr.WriteString("INFRA: " + err.Error() + "\n")
		os.Exit(90)
	}
	plan := &verifos.Plan{CrashAt: -1, TornAt: -1}
	if err := json.Unmarshal(b, plan); err != nil {
		os.Stderr.WriteString("INFRA: " + err.Error() + "\n")
		os.Exit(90)
	}
	if err := os.Chdir(plan.Dir); err != nil {
		os.Stderr.WriteString("INFRA: " + err.Error() + "\n")
		os.Exit(90)
	}
	open := func(p string, flag int) *os.File {
		if p == "" {
			return nil
		}
		f, err := os.OpenFile(p, flag, 0o644)
		if err != nil {
			os.Stderr.WriteString("INFRA: " + err.Error() + "\n")
			os.Exit(90)
		}
		return f
	}
	stdin := open(plan.Stdin, os.O_RDONLY)
	stdout := open(plan.Stdout, os.O_CREATE|os.O_WRONLY|os.O_APPEND)
	stderr := open(plan.Stderr, os.O_CREATE|os.O_WRONLY|os.O_APPEND)
	realOut, realErr := os.Stdout, os.Stderr
	if stdin != nil {
		os.Stdin = stdin
	}
	if stdout != nil {
		os.Stdout = stdout
	}
	if stderr != nil {
		os.Stderr = stderr
	}
	os.Args = append([]string{"minify"}, plan.Args...)
	verifos.Rebind(os.Stdin, os.Stdout, os.Stderr)
	if err := verifos.Start(plan); err != nil {
		realErr.WriteString("INFRA: " + err.Error() + "\n")
		os.Exit(90)
	}
	code := -1
	synctest.Test(t, func(t *testing.T) {
		done := false
		finished := make(chan struct{})
		go func() {
			verifos.Schedule(&done)
			close(finished)
		}()
		code = run()
		verifos.Finish(&done)
		<-finished
		// main() does os.Exit(run()): goroutines the program left behind (a signal handler
		// waiting for its signal) end with the process, they are not a deadlock of the bubble
		verifos.WriteResult(code & 0xff)
		os.Stdout, os.Stderr = realOut, realErr
		os.Exit(0)
	})
	// main() does os.Exit(run()): the status a parent sees is the low 8 bits
	verifos.WriteResult(code & 0xff)
	os.Stdout, os.Stderr = realOut, realErr
}
