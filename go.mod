module verif

go 1.26

require (
	github.com/tdewolff/minify/v2 v2.0.0
	github.com/tdewolff/parse/v2 v2.7.23
)

require (
	github.com/djherbis/atime v1.1.0 // indirect
	github.com/fsnotify/fsnotify v1.8.0 // indirect
	github.com/matryer/try v0.0.0-20161228173917-9ac251b645a2 // indirect
	github.com/tdewolff/argp v0.0.0-20250209172303-079abae893fb // indirect
	golang.org/x/sys v0.30.0 // indirect
)

replace github.com/tdewolff/minify/v2 => /repo
